#!/usr/bin/env python3
"""Regenerates MANIFEST.json from checks.py (kept in the repository; not run by any check)."""
import json, os, sys
ROOT = os.path.dirname(os.path.abspath(__file__))
sys.path.insert(0, ROOT)
from checks import CHECKS, PROPERTY_META

ALL = ["C%02d" % i for i in range(1, 21)]
NA = {
    "C15": "Poisson quantile: f64 exp()/powi() - SMT floating point has no transcendental functions and CBMC's exp is an approximation that is not bit-compatible with libm (probe: 0.36 < pmf(1,1) < 0.37 fails under Kani); neither exactness of the quantile nor termination for large means can be decided by a solver over this code (DESIGN.md 5 C15).",
}
PENDING = "check not built yet in this revision of /verif (work in progress; see DESIGN.md for the planned harness)"

checks = []
for pid in ALL:
    if pid not in CHECKS:
        continue
    meta = PROPERTY_META[pid]
    checks.append({
        "property_id": pid,
        "quick_cmd": "./verif.py check %s --tier quick" % pid,
        "thorough_cmd": "./verif.py check %s --tier thorough" % pid,
        "evidence_file": "/verif/evidence/%s.json" % pid,
        "replay_cmd_template": "./verif.py replay-file {path}",
        "engine": "kani-cbmc",
        "level_claimed": {
            "category": "model_checking",
            "text": meta.get("level_text", "Bounded model checking (Kani/CBMC, SAT) of the compiled crate: the assertion holds for every input within the stated bounds; nothing is claimed outside them."),
            "design_ref": "DESIGN.md section 5 " + pid,
        },
        "level_note": meta.get("level_note", "Trusted: Kani's MIR translation, CBMC, CaDiCaL; the harness models/evaluators of DESIGN.md section 4; the itertools k-merge model (section 2.1 item 5). Bounds: " + meta.get("bounds", meta.get("bounds_thorough", ""))),
        "technique": meta.get("technique", "bounded model checking of the real code with Kani/CBMC (SAT), symbolic inputs, native replay of counterexamples"),
    })

na = []
for pid in ALL:
    if pid in CHECKS:
        continue
    na.append({"property_id": pid, "reason": NA.get(pid, PENDING)})

m = {
    "version": 1,
    "setup_cmd": "./verif.py setup",
    "hooks": {
        "guard": "rta_verif",
        "enable": "none needed: every entry point is public and generic; checks build /repo's working tree as a path dependency of /verif/harness (cargo kani) and /verif/replay-native (cargo build)",
        "baseline_off_cmd": "cd /repo && cargo test --workspace --no-fail-fast --offline",
        "source_commits": [],
        "add_only": True,
    },
    "engines": [
        {"name": "kani-cbmc", "path": "/verif/harness", "serves_properties": [c["property_id"] for c in checks],
         "kind_free_text": "Kani 0.68 proof harnesses over the real crate (path dependency on /repo), decided by CBMC 6.11 + CaDiCaL; driver /verif/verif.py runs one solver process per harness, checks vacuity covers, replays counterexamples natively (dev + release)"},
        {"name": "e2-mir-smt", "path": "/verif/smt", "serves_properties": ["C09", "C10"],
         "kind_free_text": "MIR -> SMT: the optimised MIR of /repo's working tree is dumped (cargo +nightly rustc -Zunpretty=mir), the loop-free supply/arrival kernels are executed symbolically into z3 integer terms with explicit overflow obligations, validated against the native functions, and wide-range facts (periods <= 65536, windows <= 10^6) are decided by z3 5.1 with cvc5 / z3 4.8 as second opinions; supplementary to the Kani harnesses of the same properties"},
    ],
    "checks": checks,
    "not_applicable": na,
    "notes": "Exit codes: 0 held, 1 VIOLATION (replayed natively first), 2 inconclusive (timeout/OOM/vacuous/non-reproducing) - never success. Known findings: /verif/known_findings.json.",
}
json.dump(m, open(os.path.join(ROOT, "MANIFEST.json"), "w"), indent=1)
print("claimed:", [c["property_id"] for c in checks])
