//! Solver-checked harnesses for response-time-analysis-rs (see /verif/DESIGN.md).
#![allow(non_snake_case)]
#![allow(clippy::all)]

pub mod sym;
pub mod models;
pub mod spec;
pub mod props;

pub use sym::{assume, Src};

pub type Body = fn(&mut sym::Src);

/// Native replay table: harness name -> body.
pub struct Table {
    pub entries: Vec<(&'static str, Body)>,
}

impl Table {
    pub fn add(&mut self, name: &'static str, f: Body) {
        self.entries.push((name, f));
    }
}

#[macro_export]
macro_rules! reg {
    ($t:expr; $($name:ident),* $(,)?) => {
        $( $t.add(stringify!($name), $name::body); )*
    };
}

pub fn table() -> Table {
    let mut t = Table { entries: Vec::new() };
    props::register(&mut t);
    t
}
