//! Exhaustive evaluation of the ROS 2 analyses' defining inequalities
//! (DESIGN.md section 5, C07).  No crate code is called here; the supply-bound
//! function is recomputed from the reservation parameters alone, by counting
//! the supplied slots of the canonical worst-case budget placement
//! (DESIGN.md 4.3) instead of using a closed form.
//!
//! Reference equations (doc comments of src/ros2/{ecrts19,rr,bw}.rs; Casini
//! et al. ECRTS'19 Lemmas 1,3,4/5,6,7,8; Blass et al. RTSS'21 Defs 1-5, Thms 2,3,
//! Lemmas 18,19):
//!
//! ecrts19:  W   = least w >= 0 with sbf(w) >= bw_rhs(max(w,1))        (max busy window)
//!           for every offset A in [0, W]:
//!             r(A) = least r >= 0 with sbf(A + r) >= rhs(A, max(r,1))
//!           result = max_A r(A)
//! rr:       S*  = least s >= 1 with sbf(s) >= 1 + sum_{cb != eoc} DI_cb(s) + SI(s)
//!           R*  = least t with sbf(t) >= (sbf(S*) -. 1) + C_eoc
//! bw:       per activation offset a in [0, A*):
//!             S*(a) as rr with the busy-window interference, F* = least t with
//!             sbf(t) >= sbf(S*) -. 1 + C_eoc, bound = F* -. a (singleton) or F*
//!           A* = least t >= 1 with sbf(t) >= 1 + BW(t, t) + C_eoc * eta_eoc(t)

use crate::models::curve::SymCurve;

#[derive(Clone, Copy, Debug)]
pub enum Sup {
    Dedicated,
    /// budget, period
    Periodic(u64, u64),
    /// budget, deadline, period
    Constrained(u64, u64, u64),
}

impl Sup {
    /// textbook supply-bound function (max(0, .) form), written from the
    /// reservation parameters alone
    pub fn sbf(&self, t: u64) -> u64 {
        match *self {
            Sup::Dedicated => t,
            Sup::Periodic(q, p) => Self::textbook(q, p, p, t),
            Sup::Constrained(q, d, p) => Self::textbook(q, d, p, t),
        }
    }

    fn textbook(q: u64, d: u64, p: u64, t: u64) -> u64 {
        // longest blackout: (p - q) after an early budget plus (d - q) before a late one
        let shift = p - q;
        if t < shift {
            return 0;
        }
        let k = (t - shift) / p;
        let into_period = t - shift - k * p; // time since the start of period k+1's window
        let late = d - q; // the budget may start this late inside a period
        let partial = if into_period > late { (into_period - late).min(q) } else { 0 };
        k * q + partial
    }

    /// the same function by definition: supplied slots in [Q, Q + delta) when the
    /// budget comes first in period 0 and as late as the deadline allows afterwards
    /// (cross-checked against `sbf` by harness c07_spec_sbf_forms_agree)
    pub fn sbf_by_placement(&self, delta: u64) -> u64 {
        match *self {
            Sup::Dedicated => delta,
            Sup::Periodic(q, p) => Self::count(q, p, p, delta),
            Sup::Constrained(q, d, p) => Self::count(q, d, p, delta),
        }
    }

    fn count(q: u64, d: u64, p: u64, delta: u64) -> u64 {
        // slot t (absolute) is supplied iff, in period k = t / p with offset o = t % p,
        // k == 0 && o < q   or   k >= 1 && d - q <= o < d
        let mut c = 0u64;
        let mut i = 0u64;
        while i < delta {
            let t = q + i;
            let k = t / p;
            let o = t % p;
            if (k == 0 && o < q) || (k >= 1 && o >= d - q && o < d) {
                c += 1;
            }
            i += 1;
        }
        c
    }

    /// least t with sbf(t) >= demand, in closed form: the demand's last unit lies
    /// in the (k+1)-th budget, after the initial blackout and k whole periods
    /// (cross-checked against `sbf` by harness c07_spec_sbf_forms_agree)
    pub fn service_time(&self, demand: u64) -> u64 {
        if demand == 0 {
            return 0;
        }
        match *self {
            Sup::Dedicated => demand,
            Sup::Periodic(q, p) => Self::inverse(q, p, p, demand),
            Sup::Constrained(q, d, p) => Self::inverse(q, d, p, demand),
        }
    }

    fn inverse(q: u64, d: u64, p: u64, demand: u64) -> u64 {
        let k = (demand - 1) / q;
        let rem = demand - k * q; // in [1, q]
        (p - q) + k * p + (d - q) + rem
    }
}

/// least r in [0, limit] with sbf(offset + r) >= w(max(r, 1))
pub fn least_with_offset(sup: &Sup, offset: u64, limit: u64, w: impl Fn(u64) -> u64) -> Option<u64> {
    let mut r = 0u64;
    while r <= limit {
        let a = if r == 0 { 1 } else { r };
        if sup.sbf(offset + r) >= w(a) {
            return Some(r);
        }
        r += 1;
    }
    None
}

/// one callback / demand source: arrival curve and scalar cost
#[derive(Clone, Copy, Debug)]
pub struct Src1 {
    pub curve: SymCurve,
    pub cost: u64,
}

impl Src1 {
    #[inline(always)]
    pub fn rbf(&self, d: u64) -> u64 {
        self.curve.na(d) * self.cost
    }
    #[inline(always)]
    pub fn least_wcet(&self, d: u64) -> u64 {
        if self.curve.na(d) > 0 {
            self.cost
        } else {
            0
        }
    }
}

/// the generic ECRTS'19 driver: every offset in [0, W]
pub fn ecrts19(
    sup: &Sup,
    limit: u64,
    bw_rhs: impl Fn(u64) -> u64,
    rhs: impl Fn(u64, u64) -> u64,
) -> Option<u64> {
    let w = least_with_offset(sup, 0, limit, |d| bw_rhs(d))?;
    let mut best = 0u64;
    let mut a = 0u64;
    while a <= w {
        let r = least_with_offset(sup, a, limit, |x| rhs(a, x))?;
        if r > best {
            best = r;
        }
        a += 1;
    }
    Some(best)
}

/// Variant matching the offset set the code documents for non-step offsets: every offset
/// strictly inside the busy window, `[0, W)`, plus `W` itself only if it is a step offset of
/// `demand_steps` (the code keeps step offsets `<= W`).  At a non-step offset equal to `W` no
/// job of that busy window can arrive; the literal "every offset up to W" evaluation can be
/// larger there (known finding c07-offset-equal-to-busy-window).
pub fn ecrts19_inside(
    sup: &Sup,
    limit: u64,
    bw_rhs: impl Fn(u64) -> u64,
    rhs: impl Fn(u64, u64) -> u64,
    is_step_offset: impl Fn(u64) -> bool,
) -> Option<u64> {
    let w = least_with_offset(sup, 0, limit, |d| bw_rhs(d))?;
    let mut best = 0u64;
    let mut a = 0u64;
    while a <= w {
        if a < w || is_step_offset(a) {
            let r = least_with_offset(sup, a, limit, |x| rhs(a, x))?;
            if r > best {
                best = r;
            }
        }
        a += 1;
    }
    Some(best)
}

/// interference interval of Lemmas 3, 4/5, 8
#[inline(always)]
pub fn interference_interval(prefix: u64, response: u64, own_wcet: u64) -> u64 {
    if response > own_wcet {
        prefix + response - own_wcet + 1
    } else {
        prefix + 1
    }
}

// ---------------------------------------------------------------- RTSS'21

#[derive(Clone, Copy, PartialEq, Eq, Debug)]
pub enum Kind {
    Timer,
    EventSource,
    PolledUnknown,
    Polled(i32),
}

impl Kind {
    pub fn is_pp(&self) -> bool {
        matches!(self, Kind::PolledUnknown | Kind::Polled(_))
    }
}

#[derive(Clone, Copy, Debug)]
pub struct Cb {
    pub src: Src1,
    pub kind: Kind,
    /// assumed response-time bound
    pub r: u64,
}

pub const MAXCB: usize = 3;

#[derive(Clone, Copy, Debug)]
pub struct Workload {
    pub cb: [Cb; MAXCB],
    pub n: usize,
}

/// number of instances of `cb` that can interfere, given `arrived` and the
/// polling-point budget `pp` (Def. 1 / Def. 5)
fn capped(cb: &Cb, eoc_kind: &Kind, arrived: u64, pp: u64) -> u64 {
    match cb.kind {
        Kind::Timer | Kind::EventSource => arrived,
        Kind::PolledUnknown => arrived.min(pp + 1),
        Kind::Polled(p) => match *eoc_kind {
            Kind::Polled(q) => arrived.min(pp + if p < q { 1 } else { 0 }),
            _ => arrived.min(pp + 1),
        },
    }
}

/// subchain = indices into the workload (last = end of chain)
pub fn pp_bound(w: &Workload, chain: &[usize]) -> u64 {
    let mut v = 0;
    let mut i = 0;
    while i < chain.len() {
        let cb = &w.cb[chain[i]];
        v += cb.src.curve.na(cb.r);
        i += 1;
    }
    v
}

/// returns the demand whose service time is R*: `sbf(S*) -. 1 + C_eoc`
/// (None = no S* at or below the limit); R* itself is then characterised as the
/// least t with sbf(t) >= that demand
pub fn rr_target(sup: &Sup, w: &Workload, chain: &[usize], limit: u64) -> Option<u64> {
    let eoc_i = chain[chain.len() - 1];
    let eoc = w.cb[eoc_i];
    let pp = pp_bound(w, chain);
    let rhs = |s: u64| {
        let mut di = 0u64;
        let mut i = 0;
        while i < MAXCB {
            if i < w.n && i != eoc_i {
                let cb = &w.cb[i];
                let arrived = cb.src.curve.na((s + cb.r).saturating_sub(1));
                di += cb.src.cost * capped(cb, &eoc.kind, arrived, pp);
            }
            i += 1;
        }
        let si = eoc.src.cost * eoc.src.curve.na((s + eoc.r).saturating_sub(1)).saturating_sub(1);
        1 + di + si
    };
    let s_star = least_with_offset(sup, 0, limit, rhs)?;
    Some(sup.sbf(s_star).saturating_sub(1) + eoc.src.cost)
}

/// `r` is the least t with sbf(t) >= demand
pub fn is_service_time(sup: &Sup, demand: u64, r: u64) -> bool {
    sup.sbf(r) >= demand && (r == 0 || sup.sbf(r - 1) < demand)
}

fn bw_interference(w: &Workload, eoc_i: usize, pp: u64, delta: u64, act: u64) -> u64 {
    let eoc = &w.cb[eoc_i];
    let mut v = 0u64;
    let mut i = 0;
    while i < MAXCB {
        if i < w.n && i != eoc_i {
            let cb = &w.cb[i];
            let arrived = cb.src.curve.na(delta);
            let arrived_bw = cb.src.curve.na(act) + pp;
            v += cb.src.cost * capped(cb, &eoc.kind, arrived, arrived_bw);
        }
        i += 1;
    }
    v
}

/// None = divergence
pub fn bw(sup: &Sup, w: &Workload, chain: &[usize], limit: u64) -> Option<u64> {
    let eoc_i = chain[chain.len() - 1];
    let eoc = w.cb[eoc_i];
    let pp = pp_bound(w, chain);
    let singleton = chain.len() == 1;
    let max_offset = least_with_offset(sup, 0, limit, |t| {
        1 + bw_interference(w, eoc_i, pp, t, t) + eoc.src.cost * eoc.src.curve.na(t)
    })?;
    let mut best = 0u64;
    let mut act = 0u64;
    while act < max_offset {
        let si = eoc.src.cost * eoc.src.curve.na(act + 1).saturating_sub(1);
        let s_star = least_with_offset(sup, 0, limit, |s| 1 + bw_interference(w, eoc_i, pp, s, act) + si)?;
        let target = sup.sbf(s_star).saturating_sub(1) + eoc.src.cost;
        let f_star = sup.service_time(target);
        let r = if singleton { f_star.saturating_sub(act) } else { f_star };
        if r > best {
            best = r;
        }
        act += 1;
    }
    Some(best)
}
