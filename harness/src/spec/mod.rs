//! Naive evaluators of the published equations (no crate code is called here).
pub mod uniproc;
pub mod ros2;
