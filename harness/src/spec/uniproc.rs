//! Exhaustive evaluation of the defining equations of the nine
//! dedicated-processor analyses (DESIGN.md section 5, C06), written with plain
//! loops over `SymCurve::na`.
//!
//! Reference (Bozhko & Brandenburg, ECRTS 2020, Theorem 31, as instantiated in
//! the doc comments of src/fixed_priority/*.rs, src/edf/*.rs, src/fifo/rta.rs):
//!
//!   L      = least x in [1, limit] with  x >= B_L + sum_o rbf_o(x) + rbf_tua(x)
//!   for every offset A in [0, L):
//!     AF(A) = least x in [1, limit] with
//!             x >= blocking(A) + (rbf_tua(A+1) - rem_cost) + sum_o rbf_o(window_o(A, x))
//!     R(A)  = (AF(A) -. A) + rem_cost
//!   result = max_A R(A);  Err iff L or some AF(A) does not exist at or below the limit
//!
//!   FP:  B_L = blocking(A) = blocking_bound, window_o(A,x) = x
//!   EDF: B_L = 0, blocking(A) = max{ np_o - 1 | D_o > D + A and rbf_o(1) > 0 },
//!        window_o(A,x) = min(x, (A + 1 + D) -. D_o)
//!   rem_cost: 0 (fully preemptive, floating), C - 1 (non-preemptive), last_segment - 1 (limited)
//!   FIFO: L = least x >= 1 with x >= rbf(x); result = max_{A<L} rbf(A+1) - A

use crate::models::curve::SymCurve;

#[derive(Clone, Copy, Debug)]
pub struct Tk {
    pub curve: SymCurve,
    pub cost: u64,
    /// relative deadline (EDF only)
    pub dl: u64,
    /// max. non-preemptive segment (interferers under EDF: NP -> cost)
    pub np: u64,
}

impl Tk {
    #[inline(always)]
    pub fn rbf(&self, x: u64) -> u64 {
        self.curve.na(x) * self.cost
    }
}

pub const MAXO: usize = 2;

#[derive(Clone, Copy, Debug)]
pub struct Others {
    pub t: [Tk; MAXO],
    pub n: usize,
}

impl Others {
    #[inline(always)]
    pub fn sum_rbf(&self, x: u64) -> u64 {
        let mut v = 0;
        let mut i = 0;
        while i < MAXO {
            if i < self.n {
                v += self.t[i].rbf(x);
            }
            i += 1;
        }
        v
    }
}

/// None = divergence (Err)
pub type SpecResult = Option<u64>;

fn least_from_1(limit: u64, f: impl Fn(u64) -> u64) -> Option<u64> {
    let mut x = 1u64;
    while x <= limit {
        if x >= f(x) {
            return Some(x);
        }
        x += 1;
    }
    None
}

/// fixed-priority analyses
pub fn fp(tua: &Tk, others: &Others, blocking: u64, rem_cost: u64, limit: u64) -> SpecResult {
    let l = least_from_1(limit, |x| blocking + others.sum_rbf(x) + tua.rbf(x))?;
    let mut best = 0u64;
    let mut a = 0u64;
    while a < l {
        let own = tua.rbf(a + 1) - rem_cost;
        let af = least_from_1(limit, |x| blocking + own + others.sum_rbf(x))?;
        let r = af.saturating_sub(a) + rem_cost;
        if r > best {
            best = r;
        }
        a += 1;
    }
    Some(best)
}

/// EDF analyses; `blocking_on` false for the fully preemptive variant
pub fn edf(tua: &Tk, others: &Others, blocking_on: bool, rem_cost: u64, limit: u64) -> SpecResult {
    let l = least_from_1(limit, |x| others.sum_rbf(x) + tua.rbf(x))?;
    let mut best = 0u64;
    let mut a = 0u64;
    while a < l {
        let mut blocking = 0u64;
        if blocking_on {
            let mut i = 0;
            while i < MAXO {
                if i < others.n {
                    let o = &others.t[i];
                    if o.dl > tua.dl + a && o.rbf(1) > 0 {
                        let b = o.np.saturating_sub(1);
                        if b > blocking {
                            blocking = b;
                        }
                    }
                }
                i += 1;
            }
        }
        let own = tua.rbf(a + 1) - rem_cost;
        let af = least_from_1(limit, |x| {
            let mut hep = 0u64;
            let mut i = 0;
            while i < MAXO {
                if i < others.n {
                    let o = &others.t[i];
                    let w = (a + 1 + tua.dl).saturating_sub(o.dl);
                    hep += o.rbf(if x < w { x } else { w });
                }
                i += 1;
            }
            blocking + own + hep
        })?;
        let r = af.saturating_sub(a) + rem_cost;
        if r > best {
            best = r;
        }
        a += 1;
    }
    Some(best)
}

/// FIFO over the total RBF
pub fn fifo(total_rbf: impl Fn(u64) -> u64, limit: u64) -> SpecResult {
    // fixed_point::search semantics: zero demand => 0
    if total_rbf(1) == 0 {
        return Some(0);
    }
    let l = least_from_1(limit, |x| total_rbf(x))?;
    let mut best = 0u64;
    let mut a = 0u64;
    while a < l {
        let r = total_rbf(a + 1).saturating_sub(a);
        if r > best {
            best = r;
        }
        a += 1;
    }
    Some(best)
}

/// fixed-priority evaluator over arbitrary request-bound functions given as closures
/// (used for the instances with the crate's real arrival types)
pub fn fp_generic(
    rbf_tua: impl Fn(u64) -> u64,
    rbf_others: impl Fn(u64) -> u64,
    blocking: u64,
    rem_cost: u64,
    limit: u64,
) -> SpecResult {
    let l = least_from_1(limit, |x| blocking + rbf_others(x) + rbf_tua(x))?;
    let mut best = 0u64;
    let mut a = 0u64;
    while a < l {
        let own = rbf_tua(a + 1) - rem_cost;
        let af = least_from_1(limit, |x| blocking + own + rbf_others(x))?;
        let r = af.saturating_sub(a) + rem_cost;
        if r > best {
            best = r;
        }
        a += 1;
    }
    Some(best)
}
