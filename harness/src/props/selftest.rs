//! Vacuity twins: each repeats the set-up of a real harness and ends in `assert!(false)`;
//! `./verif.py selftest` requires every one of them to FAIL and to replay natively, i.e. the
//! final assertion of the corresponding family is reachable (nothing upstream assumes false).
use super::c04;
use super::c07::SupKind;
use super::calls::*;
use super::sched::*;
use crate::models::uniproc::*;
use crate::sym::assume;
use crate::{harness, reg, rep, Table};

harness!(selftest_sched_fp_np, 6, |s| {
    let kind = Kind::NonPreemptive;
    let sc = any_scenario(s, &crate::props::c01::Q);
    if let Ok(rd) = call_fp(kind, &sc) {
        let r = u64::from(rd);
        let mut cfg = [absent(); NT];
        cfg[0] = tua_cfg(kind, &sc);
        cfg[1] = fp_other_cfg(s, &sc.others.t[0]);
        let su = any_jobs(s, &sc, cfg, 1, 3);
        let mut sched = Sched::new(Policy::Fp, su.cfg, su.jobs, fp_blocking(kind, &sc));
        assume(sched.last_release(0) + r <= 10);
        rep!(10, { sched.tick(s); });
        assume(sched.jobs[0].m >= 2 && sched.max_response(0) == r && r >= 3);
        assert!(false);
    }
});

harness!(selftest_supply, 3, |s| {
    let p = s.from(1, 7);
    let q = s.from(1, 7);
    assume(q < p);
    assert!(false);
});

harness!(selftest_executor_timer, 9, |s| {
    if let Some((mut ex, slots, r)) = c04::setup_for_selftest(s, 1, SupKind::Periodic) {
        assume(ex.last_arrival(0) + r <= 12);
        let mut ti = 0usize;
        rep!(12, {
            ex.tick(s, slots.s[ti]);
            ti += 1;
        });
        assume(ex.inst[0].m >= 1 && ex.all_within(0, r));
        assert!(false);
    }
});

pub fn register(t: &mut Table) {
    reg!(t; selftest_sched_fp_np, selftest_supply, selftest_executor_timer);
}
