//! C07 - ROS 2 bounds equal exhaustive evaluation of their defining equations.
use response_time_analysis::demand::RBF;
use response_time_analysis::fixed_point::{SearchFailure, SearchResult};
use response_time_analysis::ros2::{self, bw, rr};
use response_time_analysis::supply::{Constrained, Dedicated, Periodic, SupplyBound};
use response_time_analysis::time::{Duration, Service};
use response_time_analysis::wcet::Scalar;

use crate::models::curve::SymCurve;
use crate::models::demand::TwoTasks;
use crate::spec::ros2 as spec;
use crate::spec::ros2::{Cb, Kind, Src1, Sup, Workload, MAXCB};
use crate::sym::{assume, Src};
use crate::{cover, harness, reg, Table};

pub type Rbf = RBF<SymCurve, Scalar>;

pub fn mk_rbf(t: &Src1) -> Rbf {
    RBF::new(t.curve, Scalar::new(Service::from(t.cost)))
}

pub fn any_src1(s: &mut Src, n: usize, inc_mask: u8, cost_mask: u8) -> Src1 {
    Src1 { curve: SymCurve::any(s, n, inc_mask), cost: s.from(1, cost_mask) }
}

/// which supply type a harness instantiates the analysis with (one per harness)
#[derive(Clone, Copy, PartialEq, Eq)]
pub enum SupKind {
    Dedicated,
    Periodic,
    Constrained,
}

pub fn any_sup(s: &mut Src, k: SupKind, pmask: u8) -> Sup {
    match k {
        SupKind::Dedicated => Sup::Dedicated,
        SupKind::Periodic => {
            let p = s.from(1, pmask);
            let q = s.from(1, pmask);
            assume(q <= p);
            Sup::Periodic(q, p)
        }
        SupKind::Constrained => {
            let p = s.from(1, pmask);
            let d = s.from(1, pmask);
            let q = s.from(1, pmask);
            assume(q <= d && d <= p);
            Sup::Constrained(q, d, p)
        }
    }
}

/// run `f` with the real supply object described by `sup`
macro_rules! with_supply {
    ($sup:expr, |$x:ident| $body:expr) => {
        match $sup {
            Sup::Dedicated => {
                let $x = Dedicated::new();
                $body
            }
            Sup::Periodic(q, p) => {
                let $x = Periodic::new(Service::from(q), Duration::from(p));
                $body
            }
            Sup::Constrained(q, d, p) => {
                let $x = Constrained::new(Service::from(q), Duration::from(d), Duration::from(p));
                $body
            }
        }
    };
}
pub(crate) use with_supply;

pub fn ok_value(r: &SearchResult) -> Option<u64> {
    match r {
        Ok(d) => Some(u64::from(*d)),
        Err(_) => None,
    }
}

fn is_divergence(r: &SearchResult, limit: u64) -> bool {
    matches!(r, Err(SearchFailure::DivergenceLimitExceeded { limit: l, .. }) if u64::from(*l) == limit)
}

#[derive(Clone, Copy)]
pub struct EShape {
    pub n_own: usize,
    pub n_int: usize,
    pub inc_mask: u8,
    pub cost_mask: u8,
    pub limit_mask: u8,
    pub limit_max: u64,
    pub pmask: u8,
}

pub const EQ: EShape = EShape { n_own: 2, n_int: 2, inc_mask: 3, cost_mask: 1, limit_mask: 7, limit_max: 5, pmask: 1 };
pub const ET: EShape = EShape { n_own: 3, n_int: 3, inc_mask: 3, cost_mask: 1, limit_mask: 7, limit_max: 8, pmask: 3 };

pub struct EScenario {
    pub sup: Sup,
    pub own: Src1,
    pub int: Src1,
    pub blocking: u64,
    pub limit: u64,
}

pub fn any_escenario(s: &mut Src, sk: SupKind, sh: &EShape) -> EScenario {
    let sup = any_sup(s, sk, sh.pmask);
    let own = any_src1(s, sh.n_own, sh.inc_mask, sh.cost_mask);
    let int = any_src1(s, sh.n_int, sh.inc_mask, sh.cost_mask);
    let blocking = s.bits(3);
    let limit = s.from(1, sh.limit_mask);
    assume(limit <= sh.limit_max);
    EScenario { sup, own, int, blocking, limit }
}

/// 0 event source, 1 timer, 2 polling-point callback, 3 processing chain
pub fn call_ecrts19(which: u8, sc: &EScenario) -> SearchResult {
    let own = mk_rbf(&sc.own);
    let int = mk_rbf(&sc.int);
    let limit = Duration::from(sc.limit);
    with_supply!(sc.sup, |sup| match which {
        0 => ros2::rta_event_source(&sup, &own, limit),
        1 => ros2::rta_timer(&sup, &own, &int, Service::from(sc.blocking), limit),
        2 => ros2::rta_polling_point_callback(&sup, &own, &int, limit),
        _ => {
            // chain: last callback = own, prefix = int, other chains = a third source
            // derived from the blocking value (cost = blocking, one arrival) to keep the
            // scenario small; full chain = exact sum of last + prefix
            let full = TwoTasks { a: sc.own.curve, ca: sc.own.cost, b: sc.int.curve, cb: sc.int.cost };
            let other = RBF::new(SymCurve::concrete(&[1]), Scalar::new(Service::from(sc.blocking)));
            ros2::rta_processing_chain(&sup, &own, &int, &full, &other, limit)
        }
    })
}

pub fn spec_ecrts19(which: u8, sc: &EScenario) -> Option<u64> {
    let own = sc.own;
    let int = sc.int;
    let b = sc.blocking;
    match which {
        0 => spec::ecrts19(&sc.sup, sc.limit, |d| own.rbf(d), |a, _r| own.rbf(a + 1)),
        1 => spec::ecrts19(
            &sc.sup,
            sc.limit,
            |d| own.rbf(d) + b + int.rbf(d),
            |a, r| {
                let w = own.least_wcet(a + r);
                own.rbf(a + 1) + int.rbf(spec::interference_interval(a, r, w)) + b
            },
        ),
        2 => spec::ecrts19(
            &sc.sup,
            sc.limit,
            |d| own.rbf(d) + int.rbf(d),
            |a, r| {
                let w = own.least_wcet(a + r);
                own.rbf(a + 1) + int.rbf(spec::interference_interval(a, r, w))
            },
        ),
        _ => {
            let other = |d: u64| if d >= 1 { b } else { 0 };
            spec::ecrts19(
                &sc.sup,
                sc.limit,
                |d| own.rbf(d) + int.rbf(d) + other(d),
                |a, r| {
                    let w = own.least_wcet(a + r);
                    let iv = spec::interference_interval(a, r, w);
                    own.rbf(a + 1) + int.rbf(iv) + other(iv)
                },
            )
        }
    }
}

fn ecrts19_body(s: &mut Src, which: u8, sk: SupKind, sh: &EShape) {
    let sc = any_escenario(s, sk, sh);
    let got = call_ecrts19(which, &sc);
    let want = spec_ecrts19(which, &sc);
    assert!(ok_value(&got) == want);
    if got.is_err() {
        assert!(is_divergence(&got, sc.limit));
    }
    cover!(matches!(want, Some(r) if r >= 4), "Ok(R) with R >= 4");
    cover!(want.is_none(), "divergence");
}

harness!(c07_event_source_q, 8, |s| { ecrts19_body(s, 0, SupKind::Periodic, &EQ); });
harness!(c07_timer_q, 8, |s| { ecrts19_body(s, 1, SupKind::Periodic, &EQ); });
harness!(c07_pp_q, 8, |s| { ecrts19_body(s, 2, SupKind::Periodic, &EQ); });
harness!(c07_chain_q, 8, |s| { ecrts19_body(s, 3, SupKind::Periodic, &EQ); });

harness!(c07_event_source_t, 11, |s| { ecrts19_body(s, 0, SupKind::Constrained, &ET); });
harness!(c07_timer_t, 11, |s| { ecrts19_body(s, 1, SupKind::Constrained, &ET); });
harness!(c07_pp_t, 11, |s| { ecrts19_body(s, 2, SupKind::Periodic, &ET); });
harness!(c07_chain_t, 11, |s| { ecrts19_body(s, 3, SupKind::Periodic, &ET); });
harness!(c07_timer_dedicated_t, 11, |s| { ecrts19_body(s, 1, SupKind::Dedicated, &ET); });

// polling-point callback whose own cost model is a two-frame Multiframe (the cheap frame may
// come second): `least_wcet_in_interval` then depends on how many jobs the interval holds
fn pp_multiframe_body(s: &mut Src, fmask: u8, inc_mask: u8, nint: usize, limit_max: u64) {
    use response_time_analysis::wcet::Multiframe;
    let sup = any_sup(s, SupKind::Periodic, 1);
    let curve = SymCurve::any(s, 2, inc_mask);
    let f0 = s.from(1, fmask);
    let f1 = s.from(1, fmask);
    let int = any_src1(s, nint, 3, 1);
    let limit = s.from(1, 7);
    assume(limit <= limit_max);
    let mut v = Vec::with_capacity(4);
    v.push(Service::from(f0));
    v.push(Service::from(f1));
    let own_rbf = RBF::new(curve, Multiframe::new(v));
    let int_rbf = mk_rbf(&int);
    let got = with_supply!(sup, |x| ros2::rta_polling_point_callback(&x, &own_rbf, &int_rbf, Duration::from(limit)));
    // reference: at most two jobs of the callback ever arrive
    let cost = |n: u64| if n == 0 { 0 } else if n == 1 { f0 } else { f0 + f1 };
    let least = |n: u64| if n == 0 { 0 } else if n == 1 { f0 } else if f0 < f1 { f0 } else { f1 };
    let own = |d: u64| cost(curve.na(d));
    let want = spec::ecrts19(
        &sup,
        limit,
        |d| own(d) + int.rbf(d),
        |a, r| {
            let w = least(curve.na(a + r));
            own(a + 1) + int.rbf(spec::interference_interval(a, r, w))
        },
    );
    assert!(ok_value(&got) == want);
    cover!(matches!(want, Some(r) if r >= 4) && f1 < f0, "Ok(R) with R >= 4, second frame cheaper");
}
harness!(c07_pp_multiframe_q, 8, |s| { pp_multiframe_body(s, 1, 3, 2, 6); });
harness!(c07_pp_multiframe_t, 11, |s| { pp_multiframe_body(s, 3, 7, 3, 8); });

// ---- boundary offset A = W (thorough tier).  Polling-point analysis on a dedicated processor,
// own callback with a late second step (1..8), 3-step interferer.
// A: against the evaluation over [0, W) plus W if it is a step offset - must verify;
// B (known finding c07-offset-equal-to-busy-window): against the literal evaluation over every
//    offset in [0, W], restricted to inputs where the two evaluations differ - expected to fail.
fn pp_boundary_body(s: &mut Src, literal: bool) {
    let sup = Sup::Dedicated;
    let own = Src1 { curve: SymCurve::any(s, 2, 7), cost: s.from(1, 1) };
    let int = any_src1(s, 3, 3, 1);
    let limit = s.from(1, 7);
    let got = ros2::rta_polling_point_callback(&Dedicated::new(), &mk_rbf(&own), &mk_rbf(&int), Duration::from(limit));
    let bw = |d: u64| own.rbf(d) + int.rbf(d);
    let rhs = |a: u64, r: u64| {
        let w = own.least_wcet(a + r);
        own.rbf(a + 1) + int.rbf(spec::interference_interval(a, r, w))
    };
    let inside = spec::ecrts19_inside(&sup, limit, bw, rhs, |a| own.curve.na(a + 1) > own.curve.na(a));
    let every = spec::ecrts19(&sup, limit, bw, rhs);
    if literal {
        assume(inside != every);
        assert!(ok_value(&got) == every);
    } else {
        assert!(ok_value(&got) == inside);
        cover!(matches!(inside, Some(r) if r >= 4), "Ok(R) with R >= 4");
        cover!(inside != every, "the literal evaluation over [0, W] differs");
    }
}
harness!(c07_pp_boundary_t, 11, |s| { pp_boundary_body(s, false); });
harness!(c07_pp_boundary_b, 11, |s| { pp_boundary_body(s, true); });

// the two forms of the specification's supply-bound function agree
harness!(c07_spec_sbf_forms_agree, 20, |s| {
    let sup = any_sup(s, SupKind::Constrained, 3);
    let d = s.bits(15);
    assert!(sup.sbf(d) == sup.sbf_by_placement(d));
    assert!(spec::is_service_time(&sup, d, sup.service_time(d)));
    cover!(sup.sbf(d) >= 3 && sup.sbf(d) < d, "non-trivial value");
});

// ---------------------------------------------------------------- rr / bw
pub fn any_kind(s: &mut Src) -> Kind {
    let k = s.bits(3);
    let prio = s.bits(3) as i32;
    match k {
        0 => Kind::Timer,
        1 => Kind::EventSource,
        2 => Kind::PolledUnknown,
        _ => Kind::Polled(prio),
    }
}

pub fn to_real_kind(k: Kind) -> rr::CallbackType {
    match k {
        Kind::Timer => rr::CallbackType::Timer,
        Kind::EventSource => rr::CallbackType::EventSource,
        Kind::PolledUnknown => rr::CallbackType::PolledUnknownPrio,
        Kind::Polled(p) => rr::CallbackType::Polled(p),
    }
}

#[derive(Clone, Copy)]
pub struct RShape {
    pub ncb: usize,
    pub nsteps: usize,
    pub inc_mask: u8,
    pub cost_mask: u8,
    pub r_mask: u8,
    pub limit_mask: u8,
    pub limit_max: u64,
    pub pmask: u8,
}

pub const RQ: RShape = RShape { ncb: 2, nsteps: 2, inc_mask: 3, cost_mask: 1, r_mask: 7, limit_mask: 7, limit_max: 6, pmask: 1 };
pub const RT: RShape = RShape { ncb: 2, nsteps: 3, inc_mask: 3, cost_mask: 1, r_mask: 15, limit_mask: 15, limit_max: 10, pmask: 3 };
pub const BQ: RShape = RShape { ncb: 2, nsteps: 2, inc_mask: 3, cost_mask: 1, r_mask: 3, limit_mask: 3, limit_max: 3, pmask: 1 };

pub fn any_workload(s: &mut Src, sh: &RShape) -> Workload {
    let dummy = Cb { src: Src1 { curve: SymCurve::concrete(&[1]), cost: 1 }, kind: Kind::Timer, r: 1 };
    let mut cb = [dummy; MAXCB];
    let mut i = 0;
    while i < MAXCB {
        if i < sh.ncb {
            cb[i] = Cb {
                src: any_src1(s, sh.nsteps, sh.inc_mask, sh.cost_mask),
                kind: any_kind(s),
                r: s.from(1, sh.r_mask),
            };
        }
        i += 1;
    }
    Workload { cb, n: sh.ncb }
}

pub struct RealWl {
    pub costs: [Scalar; MAXCB],
}

pub fn real_costs(w: &Workload) -> [Scalar; MAXCB] {
    [
        Scalar::new(Service::from(w.cb[0].src.cost)),
        Scalar::new(Service::from(w.cb[1].src.cost)),
        Scalar::new(Service::from(w.cb[2].src.cost)),
    ]
}

/// call rr::rta_subchain for the subchain `chain` (indices into the workload)
pub fn call_rr<S: SupplyBound>(sup: &S, w: &Workload, chain: &[usize], limit: u64) -> SearchResult {
    let costs = real_costs(w);
    let cbs = [
        rr::Callback::new(Duration::from(w.cb[0].r), &w.cb[0].src.curve, &costs[0], to_real_kind(w.cb[0].kind)),
        rr::Callback::new(Duration::from(w.cb[1].r), &w.cb[1].src.curve, &costs[1], to_real_kind(w.cb[1].kind)),
        rr::Callback::new(Duration::from(w.cb[2].r), &w.cb[2].src.curve, &costs[2], to_real_kind(w.cb[2].kind)),
    ];
    let wl = &cbs[..w.n];
    if chain.len() == 1 {
        let sub = [&wl[chain[0]]];
        rr::rta_subchain(sup, wl, &sub[..], Duration::from(limit))
    } else {
        let sub = [&wl[chain[0]], &wl[chain[1]]];
        rr::rta_subchain(sup, wl, &sub[..], Duration::from(limit))
    }
}

pub fn call_bw<S: SupplyBound>(sup: &S, w: &Workload, chain: &[usize], limit: u64) -> SearchResult {
    let costs = real_costs(w);
    let cbs = [
        bw::Callback::new(Duration::from(w.cb[0].r), &w.cb[0].src.curve, &costs[0], to_real_kind(w.cb[0].kind)),
        bw::Callback::new(Duration::from(w.cb[1].r), &w.cb[1].src.curve, &costs[1], to_real_kind(w.cb[1].kind)),
        bw::Callback::new(Duration::from(w.cb[2].r), &w.cb[2].src.curve, &costs[2], to_real_kind(w.cb[2].kind)),
    ];
    let wl = &cbs[..w.n];
    if chain.len() == 1 {
        let sub = [&wl[chain[0]]];
        bw::rta_subchain(sup, wl, &sub[..], Duration::from(limit))
    } else {
        let sub = [&wl[chain[0]], &wl[chain[1]]];
        bw::rta_subchain(sup, wl, &sub[..], Duration::from(limit))
    }
}

fn rr_body(s: &mut Src, sk: SupKind, sh: &RShape, chain: &[usize]) {
    let sup = any_sup(s, sk, sh.pmask);
    let w = any_workload(s, sh);
    let limit = s.from(1, sh.limit_mask);
    assume(limit <= sh.limit_max);
    let got = with_supply!(sup, |x| call_rr(&x, &w, chain, limit));
    let want = spec::rr_target(&sup, &w, chain, limit);
    match want {
        Some(target) => {
            let r = ok_value(&got);
            assert!(r.is_some());
            assert!(spec::is_service_time(&sup, target, r.unwrap()));
        }
        None => {
            assert!(is_divergence(&got, limit));
        }
    }
    cover!(matches!(got, Ok(d) if u64::from(d) >= 5), "Ok(R) with R >= 5");
    cover!(got.is_err(), "divergence");
}

harness!(c07_rr_single_q, 9, |s| { rr_body(s, SupKind::Periodic, &RQ, &[1]); });
harness!(c07_rr_chain_q, 9, |s| { rr_body(s, SupKind::Periodic, &RQ, &[0, 1]); });
harness!(c07_rr_single_t, 13, |s| { rr_body(s, SupKind::Constrained, &RT, &[1]); });
harness!(c07_rr_chain_t, 13, |s| { rr_body(s, SupKind::Periodic, &RT, &[0, 1]); });
harness!(c07_rr_single_dedicated_t, 13, |s| { rr_body(s, SupKind::Dedicated, &RT, &[1]); });

fn bw_body(s: &mut Src, sk: SupKind, sh: &RShape, chain: &[usize]) {
    let sup = any_sup(s, sk, sh.pmask);
    let w = any_workload(s, sh);
    let limit = s.from(1, sh.limit_mask);
    assume(limit <= sh.limit_max);
    let want = spec::bw(&sup, &w, chain, limit);
    let got = with_supply!(sup, |x| call_bw(&x, &w, chain, limit));
    match want {
        Some(r) => assert!(ok_value(&got) == Some(r)),
        None => assert!(is_divergence(&got, limit)),
    }
    cover!(matches!(got, Ok(d) if u64::from(d) >= 3), "Ok(R) with R >= 3");
    cover!(got.is_err(), "divergence");
}

harness!(c07_bw_single_t, 7, |s| { bw_body(s, SupKind::Periodic, &BQ, &[1]); });
harness!(c07_bw_chain_t, 7, |s| { bw_body(s, SupKind::Periodic, &BQ, &[0, 1]); });

pub fn register(t: &mut Table) {
    reg!(t;
        c07_event_source_q, c07_timer_q, c07_pp_q, c07_chain_q,
        c07_event_source_t, c07_timer_t, c07_pp_t, c07_chain_t, c07_timer_dedicated_t,
        c07_spec_sbf_forms_agree, c07_pp_multiframe_q, c07_pp_multiframe_t, c07_pp_boundary_t, c07_pp_boundary_b,
        c07_rr_single_q, c07_rr_chain_q, c07_rr_single_t, c07_rr_chain_t, c07_rr_single_dedicated_t,
        c07_bw_single_t, c07_bw_chain_t,
    );
}
