//! C16 - request-bound functions compose arrival and cost models additively.
use response_time_analysis::arrival::{ArrivalBound, Sporadic};
use response_time_analysis::demand::{Aggregate, AggregateRequestBound, RequestBound, Slice, RBF};
use response_time_analysis::time::{Duration, Service};
use response_time_analysis::wcet::{JobCostModel, Multiframe, Scalar};

use super::arr::*;
use super::c14::{any_cum, mk_wcet_curve, subadditive};
use crate::models::curve::SymCurve;
use crate::sym::{assume, Src};
use crate::{cover, harness, reg, Table};

const MAXJ: usize = 4;

fn sn<R: RequestBound + ?Sized>(r: &R, d: u64) -> u64 {
    u64::from(r.service_needed(Duration::from(d)))
}

/// facts about one RBF at interval length `d` (at most MAXJ jobs) and job limit `n`
fn rbf_facts<A: ArrivalBound, C: JobCostModel>(rbf: &RBF<A, C>, d: u64, n: usize) -> u64 {
    let jobs = rbf.arrival_bound.number_arrivals(Duration::from(d));
    assume(jobs <= MAXJ);
    let total = sn(rbf, d);
    // service_needed = cost of number_arrivals jobs
    assert!(total == u64::from(rbf.wcet.cost_of_jobs(jobs)));
    // job_cost_iter sums to it; collect the individual costs
    let mut costs = [0u64; MAXJ];
    let mut sum = 0u64;
    let mut cnt = 0usize;
    let mut it = rbf.job_cost_iter(Duration::from(d));
    let mut k = 0;
    while k < MAXJ + 1 {
        if let Some(c) = it.next() {
            assert!(k < MAXJ);
            costs[k] = u64::from(c);
            sum += u64::from(c);
            cnt += 1;
        }
        k += 1;
    }
    assert!(cnt == jobs);
    assert!(sum == total);
    // least_wcet_in_interval is no larger than any job cost in the interval
    let least = u64::from(rbf.least_wcet_in_interval(Duration::from(d)));
    let mut k = 0;
    while k < MAXJ {
        if k < jobs {
            assert!(least <= costs[k]);
        }
        k += 1;
    }
    // service_needed_by_n_jobs: the sum of the n largest job costs (selection in the harness)
    let by_n = u64::from(rbf.service_needed_by_n_jobs(Duration::from(d), n));
    let mut used = [false; MAXJ];
    let mut want = 0u64;
    let mut round = 0;
    while round < MAXJ {
        if round < n {
            // pick the largest unused cost
            let mut best = 0u64;
            let mut best_i = MAXJ;
            let mut i = 0;
            while i < MAXJ {
                if i < jobs && !used[i] && (best_i == MAXJ || costs[i] > best) {
                    best = costs[i];
                    best_i = i;
                }
                i += 1;
            }
            let mut i = 0;
            while i < MAXJ {
                if i == best_i {
                    used[i] = true;
                    want += best;
                }
                i += 1;
            }
        }
        round += 1;
    }
    assert!(by_n == want);
    assert!(by_n <= total);
    if n >= jobs {
        assert!(by_n == total);
    }
    // non-decreasing in n
    let by_n1 = u64::from(rbf.service_needed_by_n_jobs(Duration::from(d), n + 1));
    assert!(by_n <= by_n1);
    total
}

harness!(c16_rbf_sporadic_scalar, 8, |s| {
    let (sp, _t, _j) = any_sporadic(s, 3, 3);
    let c = s.from(1, 7);
    let rbf = RBF::new(sp, Scalar::new(Service::from(c)));
    let d = s.bits(7);
    let n = s.bits(7) as usize;
    let total = rbf_facts(&rbf, d, n);
    cover!(total >= 12 && n >= 1 && n < 3, "3+ jobs, job limit below the number of jobs");
});

harness!(c16_rbf_sporadic_multiframe, 8, |s| {
    let (sp, _t, _j) = any_sporadic(s, 3, 3);
    let mut v = Vec::with_capacity(8);
    v.push(Service::from(s.from(1, 7)));
    v.push(Service::from(s.from(1, 7)));
    v.push(Service::from(s.from(1, 7)));
    let rbf = RBF::new(sp, Multiframe::new(v));
    let d = s.bits(7);
    let n = s.bits(7) as usize;
    let total = rbf_facts(&rbf, d, n);
    cover!(total >= 9 && n == 2, "job limit 2 with 3+ jobs of different costs");
});

harness!(c16_rbf_symcurve_wcetcurve, 8, |s| {
    let ab = SymCurve::any(s, 3, 3);
    let w = any_cum(s, 3, 3);
    assume(subadditive(&w, 3));
    let rbf = RBF::new(ab, mk_wcet_curve(&w, 3));
    let d = s.bits(7);
    let n = s.bits(3) as usize;
    let total = rbf_facts(&rbf, d, n);
    cover!(total >= 5 && n == 2, "job limit 2, total >= 5");
});

// ---- Aggregate and Slice of two components
fn two_components(s: &mut Src) -> [RBF<Sporadic, Scalar>; 2] {
    let (s1, _, _) = any_sporadic(s, 3, 3);
    let (s2, _, _) = any_sporadic(s, 3, 3);
    let c1 = s.from(1, 7);
    let c2 = s.from(1, 7);
    [RBF::new(s1, Scalar::new(Service::from(c1))), RBF::new(s2, Scalar::new(Service::from(c2)))]
}

fn aggregate_facts<G: AggregateRequestBound>(agg: &G, comps: &[RBF<Sporadic, Scalar>; 2], d: u64, n: usize) {
    let dd = Duration::from(d);
    assert!(sn(agg, d) == sn(&comps[0], d) + sn(&comps[1], d));
    // least_wcet_in_interval: no larger than the smallest job cost of any component with jobs
    let least = u64::from(agg.least_wcet_in_interval(dd));
    let mut i = 0;
    while i < 2 {
        if comps[i].arrival_bound.number_arrivals(dd) > 0 {
            assert!(least <= u64::from(comps[i].wcet.wcet));
        }
        i += 1;
    }
    // per-component restriction = sum of the components' restricted demands
    let per = u64::from(agg.service_needed_by_n_jobs_per_component(dd, n));
    let want = u64::from(comps[0].service_needed_by_n_jobs(dd, n)) + u64::from(comps[1].service_needed_by_n_jobs(dd, n));
    assert!(per == want);
    assert!(per <= sn(agg, d));
    cover!(per < sn(agg, d) && per > 0, "restriction is effective");
}

harness!(c16_slice, 8, |s| {
    let comps = two_components(s);
    let d = s.bits(7);
    let n = s.bits(3) as usize;
    assume(comps[0].arrival_bound.number_arrivals(Duration::from(d)) <= MAXJ);
    assume(comps[1].arrival_bound.number_arrivals(Duration::from(d)) <= MAXJ);
    let sl = Slice::of(&comps[..]);
    aggregate_facts(&sl, &comps, d, n);
});

harness!(c16_aggregate, 8, |s| {
    let comps = two_components(s);
    let d = s.bits(7);
    let n = s.bits(3) as usize;
    assume(comps[0].arrival_bound.number_arrivals(Duration::from(d)) <= MAXJ);
    assume(comps[1].arrival_bound.number_arrivals(Duration::from(d)) <= MAXJ);
    let mut v = Vec::with_capacity(4);
    v.push(comps[0].clone());
    v.push(comps[1].clone());
    let agg = Aggregate::new(v);
    aggregate_facts(&agg, &comps, d, n);
});

// boxed / referenced components through auto_impl
harness!(c16_boxed_and_referenced, 8, |s| {
    let comps = two_components(s);
    let d = s.bits(7);
    let b: Box<dyn RequestBound> = Box::new(comps[0].clone());
    let r: &dyn RequestBound = &comps[0];
    assert!(sn(&b, d) == sn(&comps[0], d));
    assert!(sn(r, d) == sn(&comps[0], d));
    let refs = [&comps[0], &comps[1]];
    let sl = Slice::of(&refs[..]);
    assert!(sn(&sl, d) == sn(&comps[0], d) + sn(&comps[1], d));
    cover!(sn(&sl, d) >= 10, "total demand >= 10");
});

pub fn register(t: &mut Table) {
    reg!(t;
        c16_rbf_sporadic_scalar, c16_rbf_sporadic_multiframe, c16_rbf_symcurve_wcetcurve,
        c16_slice, c16_aggregate, c16_boxed_and_referenced,
    );
}
