//! C16 - request-bound functions compose arrival and cost models additively.
use response_time_analysis::arrival::ArrivalBound;
use response_time_analysis::demand::{Aggregate, AggregateRequestBound, RequestBound, Slice, RBF};
use response_time_analysis::time::{Duration, Service};
use response_time_analysis::wcet::{JobCostModel, Multiframe, Scalar};

use super::arr::*;
use super::c14::{any_cum, mk_wcet_curve, subadditive};
use crate::models::curve::SymCurve;
use crate::sym::{assume, Src};
use crate::{cover, harness, reg, Table};

const MAXJ: usize = 4;

fn sn<R: RequestBound + ?Sized>(r: &R, d: u64) -> u64 {
    u64::from(r.service_needed(Duration::from(d)))
}

/// service_needed = cost of number_arrivals jobs; job_cost_iter sums to it (at most MAXJ jobs);
/// least_wcet_in_interval is no larger than any job cost in the interval.
/// Returns (total, number of jobs, the individual costs).
fn rbf_basic<A: ArrivalBound, C: JobCostModel>(rbf: &RBF<A, C>, d: u64) -> (u64, usize, [u64; MAXJ]) {
    let jobs = rbf.arrival_bound.number_arrivals(Duration::from(d));
    assume(jobs <= MAXJ);
    let total = sn(rbf, d);
    assert!(total == u64::from(rbf.wcet.cost_of_jobs(jobs)));
    let mut costs = [0u64; MAXJ];
    let mut sum = 0u64;
    let mut cnt = 0usize;
    let mut it = rbf.job_cost_iter(Duration::from(d));
    let mut k = 0;
    while k < MAXJ + 1 {
        if let Some(c) = it.next() {
            assert!(k < MAXJ);
            if k < MAXJ {
                costs[k] = u64::from(c);
            }
            sum += u64::from(c);
            cnt += 1;
        }
        k += 1;
    }
    assert!(cnt == jobs);
    assert!(sum == total);
    let least = u64::from(rbf.least_wcet_in_interval(Duration::from(d)));
    let mut k = 0;
    while k < MAXJ {
        if k < jobs {
            assert!(least <= costs[k]);
        }
        k += 1;
    }
    (total, jobs, costs)
}

/// sum of the n largest of the first `jobs` entries of `costs` (selection, no sorting)
fn n_largest(costs: &[u64; MAXJ], jobs: usize, n: usize) -> u64 {
    let mut used = [false; MAXJ];
    let mut want = 0u64;
    let mut round = 0;
    while round < MAXJ {
        if round < n {
            let mut best = 0u64;
            let mut best_i = MAXJ;
            let mut i = 0;
            while i < MAXJ {
                if i < jobs && !used[i] && (best_i == MAXJ || costs[i] > best) {
                    best = costs[i];
                    best_i = i;
                }
                i += 1;
            }
            let mut i = 0;
            while i < MAXJ {
                if i == best_i {
                    used[i] = true;
                    want += best;
                }
                i += 1;
            }
        }
        round += 1;
    }
    want
}

harness!(c16_rbf_sporadic_scalar, 8, |s| {
    let (sp, _t, _j) = any_sporadic(s, 3, 3);
    let c = s.from(1, 7);
    let rbf = RBF::new(sp, Scalar::new(Service::from(c)));
    let d = s.bits(7);
    let (total, jobs, _) = rbf_basic(&rbf, d);
    cover!(total >= 12 && jobs >= 3, "3+ jobs, total >= 12");
});

harness!(c16_rbf_sporadic_multiframe, 8, |s| {
    let (sp, _t, _j) = any_sporadic(s, 3, 3);
    let mut v = Vec::with_capacity(8);
    v.push(Service::from(s.from(1, 7)));
    v.push(Service::from(s.from(1, 7)));
    v.push(Service::from(s.from(1, 7)));
    let rbf = RBF::new(sp, Multiframe::new(v));
    let d = s.bits(7);
    let (total, jobs, _) = rbf_basic(&rbf, d);
    cover!(total >= 9 && jobs >= 3, "3+ jobs of different costs");
});

harness!(c16_rbf_symcurve_wcetcurve, 8, |s| {
    let ab = SymCurve::any(s, 3, 3);
    let w = any_cum(s, 3, 3);
    assume(subadditive(&w, 3));
    let rbf = RBF::new(ab, mk_wcet_curve(&w, 3));
    let d = s.bits(7);
    let (total, jobs, _) = rbf_basic(&rbf, d);
    cover!(total >= 5 && jobs == 3, "3 jobs, total >= 5");
});

// ---- service_needed_by_n_jobs (default method: sorts the job costs): the number of jobs is a
// concrete shape (a burst of K jobs in every non-empty interval), the costs and n are symbolic
fn by_n_jobs_body(s: &mut Src, k: usize) {
    let burst = match k {
        2 => SymCurve::concrete(&[1, 1]),
        _ => SymCurve::concrete(&[1, 1, 1]),
    };
    let mut v = Vec::with_capacity(8);
    v.push(Service::from(s.from(1, 7)));
    v.push(Service::from(s.from(1, 7)));
    v.push(Service::from(s.from(1, 7)));
    let rbf = RBF::new(burst, Multiframe::new(v));
    let d = Duration::from(1);
    let total = sn(&rbf, 1);
    let mut costs = [0u64; MAXJ];
    let mut it = rbf.job_cost_iter(d);
    let mut i = 0;
    while i < MAXJ {
        if i < k {
            costs[i] = u64::from(it.next().unwrap());
        }
        i += 1;
    }
    let n = s.bits(7) as usize;
    let by_n = u64::from(rbf.service_needed_by_n_jobs(d, n));
    assert!(by_n == n_largest(&costs, k, n));
    assert!(by_n <= total);
    if n >= k {
        assert!(by_n == total);
    }
    let by_n1 = u64::from(rbf.service_needed_by_n_jobs(d, n + 1));
    assert!(by_n <= by_n1);
    cover!(n >= 1 && n < k && by_n < total && costs[0] < costs[1], "effective limit, first frame not the largest");
}
harness!(c16_by_n_jobs_k2, 8, |s| { by_n_jobs_body(s, 2); });
harness!(c16_by_n_jobs_k3, 8, |s| { by_n_jobs_body(s, 3); });

// ---- Aggregate and Slice of two components (bursts of two and of one job, symbolic scalar
// costs; the job counts are concrete shapes because the per-component restriction sorts vectors)
fn two_components(s: &mut Src) -> [RBF<SymCurve, Scalar>; 2] {
    let c1 = s.from(1, 7);
    let c2 = s.from(1, 7);
    [
        RBF::new(SymCurve::concrete(&[1, 1]), Scalar::new(Service::from(c1))),
        RBF::new(SymCurve::concrete(&[1]), Scalar::new(Service::from(c2))),
    ]
}

fn aggregate_facts<G: AggregateRequestBound>(agg: &G, comps: &[RBF<SymCurve, Scalar>; 2], d: u64, n: usize) {
    let dd = Duration::from(d);
    assert!(sn(agg, d) == sn(&comps[0], d) + sn(&comps[1], d));
    // least_wcet_in_interval: no larger than the smallest job cost of any component with jobs
    let least = u64::from(agg.least_wcet_in_interval(dd));
    let mut i = 0;
    while i < 2 {
        if comps[i].arrival_bound.number_arrivals(dd) > 0 {
            assert!(least <= u64::from(comps[i].wcet.wcet));
        }
        i += 1;
    }
    // per-component restriction = sum of the components' restricted demands
    // (scalar costs: min(n, jobs) * cost, recomputed here)
    let per = u64::from(agg.service_needed_by_n_jobs_per_component(dd, n));
    let mut want = 0u64;
    let mut i = 0;
    while i < 2 {
        let jobs = comps[i].arrival_bound.number_arrivals(dd) as u64;
        let m = if (n as u64) < jobs { n as u64 } else { jobs };
        want += m * u64::from(comps[i].wcet.wcet);
        i += 1;
    }
    assert!(per == want);
    assert!(per <= sn(agg, d));
    cover!(per < sn(agg, d) && per > 0, "restriction is effective");
}

harness!(c16_slice, 8, |s| {
    let comps = two_components(s);
    // a concrete interval length keeps the job counts (vector lengths) concrete
    let d = 1;
    let n = s.bits(3) as usize;
    let sl = Slice::of(&comps[..]);
    aggregate_facts(&sl, &comps, d, n);
});

harness!(c16_aggregate, 8, |s| {
    // (the per-component restriction on the heap-backed Aggregate ran out of memory at 12 GB;
    // it is verified on Slice, whose implementation is the same expression over a slice)
    let comps = two_components(s);
    let d = s.from(1, 7);
    let dd = Duration::from(d);
    let mut v = Vec::with_capacity(4);
    v.push(comps[0].clone());
    v.push(comps[1].clone());
    let agg = Aggregate::new(v);
    assert!(sn(&agg, d) == sn(&comps[0], d) + sn(&comps[1], d));
    let least = u64::from(agg.least_wcet_in_interval(dd));
    assert!(least <= u64::from(comps[0].wcet.wcet) && least <= u64::from(comps[1].wcet.wcet));
    cover!(sn(&agg, d) >= 10, "total demand >= 10");
});

// boxed / referenced components through auto_impl
harness!(c16_boxed_and_referenced, 8, |s| {
    let comps = two_components(s);
    let d = s.bits(7);
    let b: Box<dyn RequestBound> = Box::new(comps[0].clone());
    let r: &dyn RequestBound = &comps[0];
    assert!(sn(&b, d) == sn(&comps[0], d));
    assert!(sn(r, d) == sn(&comps[0], d));
    let refs = [&comps[0], &comps[1]];
    let sl = Slice::of(&refs[..]);
    assert!(sn(&sl, d) == sn(&comps[0], d) + sn(&comps[1], d));
    cover!(sn(&sl, d) >= 10, "total demand >= 10");
});

pub fn register(t: &mut Table) {
    reg!(t;
        c16_rbf_sporadic_scalar, c16_rbf_sporadic_multiframe, c16_rbf_symcurve_wcetcurve,
        c16_by_n_jobs_k2, c16_by_n_jobs_k3,
        c16_slice, c16_aggregate, c16_boxed_and_referenced,
    );
}
