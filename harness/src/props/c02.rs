//! C02 - EDF RTAs are safe for every legal schedule.
use super::calls::*;
use super::sched::*;
use crate::models::uniproc::*;
use crate::sym::assume;
use crate::{cover, harness, reg, rep, Table};

pub const Q: Shape = Shape {
    n_tua: 2, n_others: 1, n_oth: 2, inc_mask: 3, cost_mask: 1,
    limit_mask: 3, limit_max: 3, dl_mask: 3, b_mask: 0,
};
pub const T: Shape = Shape {
    n_tua: 3, n_others: 1, n_oth: 3, inc_mask: 3, cost_mask: 1,
    limit_mask: 3, limit_max: 4, dl_mask: 7, b_mask: 0,
};

macro_rules! edf_sched_harness {
    ($name:ident, $unwind:literal, $h:tt, $kind:expr, $shape:expr, $first:literal, $gap:literal) => {
        harness!($name, $unwind, |s| {
            let kind = $kind;
            let sc = any_scenario(s, &$shape);
            let res = call_edf(kind, &sc);
            if let Ok(rd) = res {
                let r = u64::from(rd);
                let mut cfg = [absent(); NT];
                cfg[0] = tua_cfg(kind, &sc);
                let mut i = 0;
                while i < sc.others.n {
                    cfg[i + 1] = edf_other_cfg(kind, &sc.others.t[i]);
                    i += 1;
                }
                let su = any_jobs(s, &sc, cfg, $first, $gap);
                let mut sched = Sched::new(Policy::Edf, su.cfg, su.jobs, 0);
                assume(sched.last_release(0) + r <= $h);
                rep!($h, { sched.tick(s); });
                assert!(sched.all_within(0, r));
                cover!(r >= 3 && sched.jobs[0].m >= 1 && sched.max_response(0) == r, "some job attains R >= 3");
            }
        });
    };
}

edf_sched_harness!(c02_edf_p_q, 5, 10, Kind::Preemptive, Q, 1, 3);
edf_sched_harness!(c02_edf_np_q, 5, 10, Kind::NonPreemptive, Q, 1, 3);
edf_sched_harness!(c02_edf_lp_q, 5, 10, Kind::Limited, Q, 1, 3);
edf_sched_harness!(c02_edf_fl_q, 5, 10, Kind::Floating, Q, 1, 3);

edf_sched_harness!(c02_edf_p_t, 6, 14, Kind::Preemptive, T, 3, 3);
edf_sched_harness!(c02_edf_np_t, 6, 14, Kind::NonPreemptive, T, 3, 3);
edf_sched_harness!(c02_edf_lp_t, 6, 14, Kind::Limited, T, 3, 3);
edf_sched_harness!(c02_edf_fl_t, 6, 14, Kind::Floating, T, 3, 3);

pub fn register(t: &mut Table) {
    reg!(t;
        c02_edf_p_q, c02_edf_np_q, c02_edf_lp_q, c02_edf_fl_q,
        c02_edf_p_t, c02_edf_np_t, c02_edf_lp_t, c02_edf_fl_t,
    );
}
