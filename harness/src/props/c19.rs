//! C19 - analyses agree with each other on their common special cases.
use super::c06;
use super::c07::{any_escenario, call_ecrts19, call_rr, any_workload, EScenario, SupKind, EQ, ET, RQ};
use super::calls::*;
use crate::spec::ros2::Sup;
use crate::sym::{assume, Src};
use crate::{cover, harness, reg, Table};
use response_time_analysis::supply::{Constrained, Dedicated, Periodic};
use response_time_analysis::time::{Duration, Service};

// ---- reductions between the FP preemption models (arbitrary curves)
fn fp_reductions(s: &mut Src, sh: &Shape) {
    let sc = any_scenario(s, sh);
    // limited-preemptive with last segment 1 and no blocking == fully preemptive
    let mut a = sc;
    a.last_seg = 1;
    a.blocking = 0;
    assert!(call_fp(Kind::Limited, &a) == call_fp(Kind::Preemptive, &a));
    // limited-preemptive with last segment = WCET == non-preemptive (same blocking)
    let mut b = sc;
    b.last_seg = sc.tua.cost;
    let lp = call_fp(Kind::Limited, &b);
    assert!(lp == call_fp(Kind::NonPreemptive, &b));
    // floating == limited-preemptive with last segment 1 (same blocking)
    let mut c = sc;
    c.last_seg = 1;
    let fl = call_fp(Kind::Floating, &c);
    assert!(fl == call_fp(Kind::Limited, &c));
    cover!(matches!(lp, Ok(d) if u64::from(d) >= 3) && sc.tua.cost == 2, "NP bound >= 3 with C = 2");
    cover!(fl.is_err(), "divergence");
}
harness!(c19_fp_reductions_q, 6, |s| { fp_reductions(s, &c06::Q); });
harness!(c19_fp_reductions_t, 8, |s| { fp_reductions(s, &c06::T); });

// ---- the EDF analogues (one pair per harness: an EDF call is expensive)
fn edf_pair(s: &mut Src, sh: &Shape, which: u8) {
    let sc = any_scenario(s, sh);
    let mut a = sc;
    match which {
        0 => {
            // all segments 1: limited-preemptive == fully preemptive
            a.last_seg = 1;
            a.others.t[0].np = 1;
            a.others.t[1].np = 1;
            let x = call_edf(Kind::Limited, &a);
            assert!(x == call_edf(Kind::Preemptive, &a));
            cover!(matches!(x, Ok(d) if u64::from(d) >= 3), "bound >= 3");
        }
        1 => {
            // all segments = WCET: limited-preemptive == non-preemptive
            a.last_seg = sc.tua.cost;
            a.others.t[0].np = sc.others.t[0].cost;
            a.others.t[1].np = sc.others.t[1].cost;
            let x = call_edf(Kind::Limited, &a);
            assert!(x == call_edf(Kind::NonPreemptive, &a));
            cover!(matches!(x, Ok(d) if u64::from(d) >= 3), "bound >= 3");
        }
        _ => {
            // floating == limited-preemptive with last segment 1 (same max segments of the others)
            a.last_seg = 1;
            let x = call_edf(Kind::Floating, &a);
            assert!(x == call_edf(Kind::Limited, &a));
            cover!(matches!(x, Ok(d) if u64::from(d) >= 3), "bound >= 3");
        }
    }
}
harness!(c19_edf_lp1_eq_p_q, 5, |s| { edf_pair(s, &c06::QE, 0); });
harness!(c19_edf_lpc_eq_np_q, 5, |s| { edf_pair(s, &c06::QE, 1); });
harness!(c19_edf_fl_eq_lp1_q, 5, |s| { edf_pair(s, &c06::QE, 2); });

// ---- equal deadlines: the largest NP-EDF bound over all tasks == FIFO
// (different offset ranges: only for curves an arrival process can have)
harness!(c19_npedf_eq_fifo_q, 5, |s| {
    let mut sc = any_scenario(s, &c06::QE);
    assume(sc.tua.curve.realisable() && sc.others.t[0].curve.realisable());
    sc.others.t[0].dl = sc.tua.dl;
    let r0 = call_edf(Kind::NonPreemptive, &sc);
    // the other task as task under analysis
    let mut sw = sc;
    sw.tua = sc.others.t[0];
    sw.others.t[0] = sc.tua;
    let r1 = call_edf(Kind::NonPreemptive, &sw);
    let ff = call_fifo(&sc);
    match (r0, r1, ff) {
        (Ok(a), Ok(b), Ok(f)) => assert!(if a > b { a } else { b } == f),
        (Ok(_), Ok(_), Err(_)) => assert!(false),
        (_, _, Ok(_)) => assert!(false),
        _ => {}
    }
    cover!(matches!(ff, Ok(d) if u64::from(d) >= 3), "FIFO bound >= 3");
});

// ---- ROS 2: dedicated == periodic with budget = period == constrained with budget = deadline = period
fn ros_supply_equiv(s: &mut Src, which: u8) {
    let mut sc = any_escenario(s, SupKind::Dedicated, &EQ);
    let p = s.from(1, 3);
    let ded = call_ecrts19(which, &sc);
    sc.sup = Sup::Periodic(p, p);
    let per = call_ecrts19(which, &sc);
    sc.sup = Sup::Constrained(p, p, p);
    let con = call_ecrts19(which, &sc);
    assert!(ded == per);
    assert!(ded == con);
    cover!(matches!(ded, Ok(d) if u64::from(d) >= 3), "bound >= 3");
}
harness!(c19_ros_event_source_supplies, 8, |s| { ros_supply_equiv(s, 0); });
harness!(c19_ros_timer_supplies, 8, |s| { ros_supply_equiv(s, 1); });
harness!(c19_ros_pp_supplies, 8, |s| { ros_supply_equiv(s, 2); });
harness!(c19_ros_chain_supplies, 8, |s| { ros_supply_equiv(s, 3); });

harness!(c19_ros_rr_supplies, 9, |s| {
    let w = any_workload(s, &RQ);
    let limit = s.from(1, 7);
    assume(limit <= 6);
    let p = s.from(1, 3);
    let ded = call_rr(&Dedicated::new(), &w, &[1], limit);
    let per = call_rr(&Periodic::new(Service::from(p), Duration::from(p)), &w, &[1], limit);
    let con = call_rr(&Constrained::new(Service::from(p), Duration::from(p), Duration::from(p)), &w, &[1], limit);
    assert!(ded == per);
    assert!(ded == con);
    cover!(matches!(ded, Ok(d) if u64::from(d) >= 3), "bound >= 3");
});

// ---- the event-source analysis on a dedicated processor == FIFO
harness!(c19_event_source_eq_fifo, 8, |s| {
    let sc = any_scenario(s, &c06::Q);
    // different offset ranges (<= L vs < L): only for curves an arrival process can have
    assume(sc.tua.curve.realisable() && sc.others.t[0].curve.realisable());
    let tt = fifo_tasks(&sc);
    let a = response_time_analysis::ros2::rta_event_source(&Dedicated::new(), &tt, Duration::from(sc.limit));
    let b = call_fifo(&sc);
    assert!(a.is_ok() == b.is_ok());
    if let (Ok(x), Ok(y)) = (a, b) {
        assert!(x == y);
    }
    cover!(matches!(b, Ok(d) if u64::from(d) >= 3), "bound >= 3");
});

pub fn register(t: &mut Table) {
    reg!(t;
        c19_fp_reductions_q, c19_fp_reductions_t,
        c19_edf_lp1_eq_p_q, c19_edf_lpc_eq_np_q, c19_edf_fl_eq_lp1_q, c19_npedf_eq_fifo_q,
        c19_ros_event_source_supplies, c19_ros_timer_supplies, c19_ros_pp_supplies, c19_ros_chain_supplies,
        c19_ros_rr_supplies, c19_event_source_eq_fifo,
    );
}

#[allow(dead_code)]
fn _unused(_: &EScenario) {
    let _ = ET;
}
