//! Shared set-up for the schedule-based soundness harnesses (C01, C02, C03, C18).
use super::calls::*;
use crate::models::uniproc::*;
use crate::spec::uniproc::Tk;
use crate::sym::Src;

pub fn absent() -> TaskCfg {
    TaskCfg { present: false, wcet: 1, deadline: 1, preempt: Preempt::Fully, np: 1, last_seg: 1, strict: false }
}

pub fn tua_cfg(kind: Kind, sc: &Scenario) -> TaskCfg {
    TaskCfg {
        present: true,
        wcet: sc.tua.cost,
        deadline: sc.tua.dl,
        preempt: match kind {
            Kind::Preemptive => Preempt::Fully,
            Kind::NonPreemptive => Preempt::Never,
            Kind::Limited => Preempt::LastSegment,
            Kind::Floating => Preempt::Floating,
        },
        np: sc.tua.cost,
        last_seg: sc.last_seg,
        strict: false,
    }
}

/// other task under a fixed-priority policy: higher-or-equal priority; its own
/// preemption model cannot delay the task under analysis any further (it has
/// priority anyway), so it is dispatched tick by tick with symbolic choices
pub fn fp_other_cfg(s: &mut Src, o: &Tk) -> TaskCfg {
    TaskCfg {
        present: true,
        wcet: o.cost,
        deadline: o.dl,
        preempt: Preempt::Fully,
        np: 1,
        last_seg: 1,
        strict: s.flag(),
    }
}

/// other task under EDF variant `kind`
pub fn edf_other_cfg(kind: Kind, o: &Tk) -> TaskCfg {
    TaskCfg {
        present: true,
        wcet: o.cost,
        deadline: o.dl,
        preempt: match kind {
            Kind::Preemptive => Preempt::Fully,
            Kind::NonPreemptive => Preempt::Never,
            Kind::Limited | Kind::Floating => Preempt::Regions,
        },
        np: edf_np(kind, o),
        last_seg: 1,
        strict: false,
    }
}

pub struct Setup {
    pub cfg: [TaskCfg; NT],
    pub jobs: [Jobs; NT],
}

/// symbolic admissible job sequences for all present tasks
pub fn any_jobs(s: &mut Src, sc: &Scenario, cfg: [TaskCfg; NT], first_mask: u8, gap_mask: u8) -> Setup {
    let mut jobs = [Jobs::none(); NT];
    jobs[0] = Jobs::any(s, &sc.tua.curve, sc.tua.cost, first_mask, gap_mask, &cfg[0]);
    let mut i = 0;
    while i < sc.others.n {
        jobs[i + 1] = Jobs::any(s, &sc.others.t[i].curve, sc.others.t[i].cost, first_mask, gap_mask, &cfg[i + 1]);
        i += 1;
    }
    Setup { cfg, jobs }
}
