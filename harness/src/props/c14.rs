//! C14 - job-cost models bound every run of consecutive jobs.
use response_time_analysis::time::Service;
use response_time_analysis::wcet::{Curve, ExtrapolatingCurve, JobCostModel, Multiframe, Scalar};

use crate::sym::{assume, Src};
use crate::{cover, harness, reg, Table};

fn cost<M: JobCostModel + ?Sized>(m: &M, n: usize) -> u64 {
    u64::from(m.cost_of_jobs(n))
}
fn least<M: JobCostModel + ?Sized>(m: &M, n: usize) -> u64 {
    u64::from(m.least_wcet(n))
}

/// cost_of_jobs(0) = 0, monotone, equal to the prefix sums of job_cost_iter,
/// least_wcet(n) no larger than any of the first n items; n <= nmax
fn model_facts<M: JobCostModel + ?Sized>(m: &M, nmax: usize) {
    assert!(cost(m, 0) == 0);
    let mut it = m.job_cost_iter();
    let mut sum = 0u64;
    let mut minimum = u64::MAX;
    let mut n = 1usize;
    while n <= nmax {
        let item = u64::from(it.next().unwrap());
        sum += item;
        if item < minimum {
            minimum = item;
        }
        assert!(cost(m, n) == sum);
        assert!(cost(m, n - 1) <= cost(m, n));
        assert!(least(m, n) <= minimum);
        n += 1;
    }
}

harness!(c14_scalar, 10, |s| {
    let c = s.from(1, 7);
    let m = Scalar::new(Service::from(c));
    model_facts(&m, 8);
    cover!(cost(&m, 8) >= 40, "cost of 8 jobs >= 40");
});

macro_rules! multiframe {
    ($name:ident, $k:literal) => {
        harness!($name, 10, |s| {
            let mut v = Vec::with_capacity(8);
            let mut i = 0;
            while i < $k {
                v.push(Service::from(s.from(1, 7)));
                i += 1;
            }
            let m = Multiframe::new(v);
            model_facts(&m, 8);
            cover!(cost(&m, 8) >= 8 * $k && least(&m, 8) == 1, "large cost with a frame of cost 1");
        });
    };
}
multiframe!(c14_multiframe1, 1);
multiframe!(c14_multiframe2, 2);
multiframe!(c14_multiframe3, 3);

pub const WM: usize = 6;

/// symbolic cumulative-cost prefix with `n` entries: per-job increments in
/// [0 or 1, 1 + inc_mask]; `well_formed`: additionally sub-additive
pub fn any_cum(s: &mut Src, n: usize, inc_mask: u8) -> [u64; WM] {
    let mut w = [0u64; WM];
    let mut v = 0u64;
    let mut i = 0;
    while i < WM {
        if i < n {
            v += s.from(1, inc_mask);
            w[i] = v;
        }
        i += 1;
    }
    w
}

pub fn subadditive(w: &[u64; WM], n: usize) -> bool {
    // w(a + b) <= w(a) + w(b), indices are job counts minus one
    let mut ok = true;
    let mut a = 0;
    while a < WM {
        let mut b = 0;
        while b < WM {
            if a + b + 1 < n && w[a + b + 1] > w[a] + w[b] {
                ok = false;
            }
            b += 1;
        }
        a += 1;
    }
    ok
}

pub fn mk_wcet_curve(w: &[u64; WM], n: usize) -> Curve {
    let mut v = Vec::with_capacity(16);
    let mut i = 0;
    while i < WM {
        if i < n {
            v.push(Service::from(w[i]));
        }
        i += 1;
    }
    Curve::new(v)
}

macro_rules! wcet_curve {
    ($name:ident, $k:literal) => {
        harness!($name, 10, |s| {
            let w = any_cum(s, $k, 3);
            assume(subadditive(&w, $k));
            let m = mk_wcet_curve(&w, $k);
            model_facts(&m, 8);
            cover!(cost(&m, 8) >= 12, "cost of 8 jobs >= 12");
        });
    };
}
wcet_curve!(c14_curve1, 1);
wcet_curve!(c14_curve2, 2);
wcet_curve!(c14_curve3, 3);
wcet_curve!(c14_curve4, 4);

// ---- Curve::from_trace bounds every run of consecutive jobs of the trace
const TL: usize = 5;

fn run_sum(t: &[u64; TL], start: usize, k: usize) -> u64 {
    let mut sum = 0;
    let mut i = 0;
    while i < TL {
        if i >= start && i < start + k {
            sum += t[i];
        }
        i += 1;
    }
    sum
}

fn from_trace_body(s: &mut Src, len: usize, max_n: usize) {
    let mut t = [0u64; TL];
    let mut i = 0;
    while i < TL {
        if i < len {
            t[i] = s.from(1, 7);
        }
        i += 1;
    }
    let c = Curve::from_trace(t[..len].iter().map(|x| Service::from(*x)), max_n);
    // every run of k consecutive jobs, k up to the trace length (also beyond max_n)
    let mut k = 1;
    while k <= TL {
        let mut start = 0;
        while start < TL {
            if k <= len && start + k <= len {
                assert!(run_sum(&t, start, k) <= cost(&c, k));
            }
            start += 1;
        }
        k += 1;
    }
    assert!(cost(&c, 0) == 0);
}

macro_rules! from_trace {
    ($name:ident, $len:literal, $maxn:literal) => {
        harness!($name, 8, |s| {
            from_trace_body(s, $len, $maxn);
        });
    };
}
from_trace!(c14_from_trace_2_1, 2, 1);
from_trace!(c14_from_trace_3_2, 3, 2);
from_trace!(c14_from_trace_4_2, 4, 2);
from_trace!(c14_from_trace_4_3, 4, 3);
from_trace!(c14_from_trace_5_3, 5, 3);

// ---- extrapolation: never raises a bound, keeps dominating the trace
// A: queries n within the extrapolated prefix; B (known finding
// c14-extrapolate-raises-beyond-horizon): queries beyond it
fn extrapolate_body(s: &mut Src, beyond: bool) {
    let w = any_cum(s, 3, 3);
    assume(subadditive(&w, 3));
    let orig = mk_wcet_curve(&w, 3);
    let mut ext = mk_wcet_curve(&w, 3);
    let upto = s.from(4, 3) as usize; // extrapolate(upto) -> prefix covers upto - 1 jobs
    ext.extrapolate(upto);
    let n = s.bits(15) as usize;
    let covered = if upto - 1 > 3 { upto - 1 } else { 3 };
    assume((n > covered) == beyond);
    assert!(cost(&ext, n) <= cost(&orig, n));
    cover!(n >= 5 && cost(&ext, n) < cost(&orig, n), "extrapolation tightens a bound for n >= 5");
}
harness!(c14_extrapolate_within, 12, |s| { extrapolate_body(s, false); });
harness!(c14_extrapolate_beyond_b, 12, |s| { extrapolate_body(s, true); });

// extrapolated curve inferred from a trace keeps dominating the trace
harness!(c14_extrapolate_dominates_trace, 10, |s| {
    let mut t = [0u64; TL];
    let mut i = 0;
    while i < TL {
        t[i] = s.from(1, 7);
        i += 1;
    }
    let mut c = Curve::from_trace(t.iter().map(|x| Service::from(*x)), 3);
    c.extrapolate(6);
    let mut k = 1;
    while k <= TL {
        let mut start = 0;
        while start < TL {
            if start + k <= TL {
                assert!(run_sum(&t, start, k) <= cost(&c, k));
            }
            start += 1;
        }
        k += 1;
    }
});

// ---- the caching variant answers like a fresh one regardless of query history
fn history_body(s: &mut Src, queries: usize) {
    let w = any_cum(s, 3, 3);
    assume(subadditive(&w, 3));
    let cached = ExtrapolatingCurve::new(mk_wcet_curve(&w, 3));
    // history on `cached` (and on a clone sharing the cache)
    let clone = cached.clone();
    let mut q = 0;
    while q < queries {
        let kind = s.bits(3);
        let n = s.bits(7) as usize;
        if kind == 0 {
            let _ = cached.cost_of_jobs(n);
        } else if kind == 1 {
            let _ = clone.cost_of_jobs(n);
        } else if kind == 2 {
            let _ = cached.least_wcet(n);
        }
        q += 1;
    }
    let n = s.bits(7) as usize;
    // the eager twin: a plain, never-queried Curve extrapolated to cover n (a fresh
    // ExtrapolatingCurve is the instance of this harness whose history does nothing)
    let mut eager = mk_wcet_curve(&w, 3);
    eager.extrapolate(n + 1);
    assert!(cost(&cached, n) == cost(&eager, n));
    cover!(n >= 6, "final query for n >= 6");
}
harness!(c14_extrapolating_history1, 10, |s| { history_body(s, 1); });
harness!(c14_extrapolating_history2, 10, |s| { history_body(s, 2); });

harness!(c14_extrapolating_least_wcet_history, 12, |s| {
    let w = any_cum(s, 3, 3);
    assume(subadditive(&w, 3));
    let cached = ExtrapolatingCurve::new(mk_wcet_curve(&w, 3));
    let fresh = ExtrapolatingCurve::new(mk_wcet_curve(&w, 3));
    let m = s.bits(7) as usize;
    let _ = cached.cost_of_jobs(m);
    let n = s.bits(7) as usize;
    assert!(least(&cached, n) == least(&fresh, n));
    cover!(m >= 6 && n >= 5, "least_wcet(n>=5) after extrapolating to >= 6 jobs");
});

pub fn register(t: &mut Table) {
    reg!(t;
        c14_scalar, c14_multiframe1, c14_multiframe2, c14_multiframe3,
        c14_curve1, c14_curve2, c14_curve3, c14_curve4,
        c14_from_trace_2_1, c14_from_trace_3_2, c14_from_trace_4_2, c14_from_trace_4_3, c14_from_trace_5_3,
        c14_extrapolate_within, c14_extrapolate_beyond_b, c14_extrapolate_dominates_trace,
        c14_extrapolating_history1, c14_extrapolating_history2, c14_extrapolating_least_wcet_history,
    );
}
