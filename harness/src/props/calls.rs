//! Scenario generation and calls of the real dedicated-processor analyses.
use response_time_analysis::demand::RBF;
use response_time_analysis::fixed_point::{SearchFailure, SearchResult};
use response_time_analysis::time::{Duration, Offset, Service};
use response_time_analysis::wcet::Scalar;
use response_time_analysis::{edf, fifo, fixed_priority as fp};

use crate::models::curve::SymCurve;
use crate::models::demand::TwoTasks;
use crate::spec::uniproc::{Others, SpecResult, Tk, MAXO};
use crate::sym::{assume, Src};

pub type Rbf = RBF<SymCurve, Scalar>;

pub fn mk_rbf(t: &Tk) -> Rbf {
    RBF::new(t.curve, Scalar::new(Service::from(t.cost)))
}

/// concrete shape + value masks of a scenario (the stated bounds)
#[derive(Clone, Copy, Debug)]
pub struct Shape {
    /// steps of the task under analysis
    pub n_tua: usize,
    /// number of other tasks (<= 2) and their steps
    pub n_others: usize,
    pub n_oth: usize,
    /// increments between curve positions in [0, inc_mask]
    pub inc_mask: u8,
    /// WCETs in [1, 1 + cost_mask]
    pub cost_mask: u8,
    /// limit in [1, 1 + limit_mask] (additionally capped by limit_max)
    pub limit_mask: u8,
    pub limit_max: u64,
    /// relative deadlines in [1, 1 + dl_mask]
    pub dl_mask: u8,
    /// blocking bound in [0, b_mask]
    pub b_mask: u8,
}

#[derive(Clone, Copy, Debug)]
pub struct Scenario {
    pub tua: Tk,
    pub others: Others,
    pub blocking: u64,
    pub last_seg: u64,
    pub limit: u64,
}

pub fn any_tk(s: &mut Src, n: usize, sh: &Shape) -> Tk {
    let curve = SymCurve::any(s, n, sh.inc_mask);
    let cost = s.from(1, sh.cost_mask);
    let dl = s.from(1, sh.dl_mask);
    let np = s.from(1, sh.cost_mask);
    assume(np <= cost);
    Tk { curve, cost, dl, np }
}

pub fn any_scenario(s: &mut Src, sh: &Shape) -> Scenario {
    let tua = any_tk(s, sh.n_tua, sh);
    let dummy = Tk { curve: SymCurve::concrete(&[1]), cost: 1, dl: 1, np: 1 };
    let mut t = [dummy; MAXO];
    let mut i = 0;
    while i < MAXO {
        if i < sh.n_others {
            t[i] = any_tk(s, sh.n_oth, sh);
        }
        i += 1;
    }
    let others = Others { t, n: sh.n_others };
    let blocking = s.bits(sh.b_mask);
    let last_seg = s.from(1, sh.cost_mask);
    assume(last_seg <= tua.cost);
    let limit = s.from(1, sh.limit_mask);
    assume(limit <= sh.limit_max);
    Scenario { tua, others, blocking, last_seg, limit }
}

pub fn to_spec(r: &SearchResult) -> SpecResult {
    match r {
        Ok(d) => Some(u64::from(*d)),
        Err(_) => None,
    }
}

/// every error of these analyses stems from `fixed_point::search` (offset 0)
pub fn err_payload_ok(r: &SearchResult, limit: u64) -> bool {
    match r {
        Ok(_) => true,
        Err(e) => {
            *e == SearchFailure::DivergenceLimitExceeded {
                offset: Offset::from(0),
                limit: Duration::from(limit),
            }
        }
    }
}

#[derive(Clone, Copy, PartialEq, Eq, Debug)]
pub enum Kind {
    Preemptive,
    NonPreemptive,
    Limited,
    Floating,
}

impl Kind {
    pub fn rem_cost(&self, sc: &Scenario) -> u64 {
        match self {
            Kind::Preemptive | Kind::Floating => 0,
            Kind::NonPreemptive => sc.tua.cost - 1,
            Kind::Limited => sc.last_seg - 1,
        }
    }
}

fn rbfs(others: &Others) -> [Rbf; MAXO] {
    [mk_rbf(&others.t[0]), mk_rbf(&others.t[1])]
}

pub fn call_fp(kind: Kind, sc: &Scenario) -> SearchResult {
    let limit = Duration::from(sc.limit);
    let all = rbfs(&sc.others);
    let oth = &all[..sc.others.n];
    let wcet = Scalar::new(Service::from(sc.tua.cost));
    match kind {
        Kind::Preemptive => {
            let tua = mk_rbf(&sc.tua);
            fp::fully_preemptive::dedicated_uniproc_rta(&tua, oth, limit)
        }
        Kind::NonPreemptive => {
            let tua = fp::fully_nonpreemptive::TaskUnderAnalysis {
                wcet,
                arrivals: &sc.tua.curve,
                blocking_bound: Service::from(sc.blocking),
            };
            fp::fully_nonpreemptive::dedicated_uniproc_rta(&tua, oth, limit)
        }
        Kind::Limited => {
            let tua = fp::limited_preemptive::TaskUnderAnalysis {
                wcet,
                arrivals: &sc.tua.curve,
                last_np_segment: Service::from(sc.last_seg),
                blocking_bound: Service::from(sc.blocking),
            };
            fp::limited_preemptive::dedicated_uniproc_rta(&tua, oth, limit)
        }
        Kind::Floating => {
            let rbf = mk_rbf(&sc.tua);
            let tua = fp::floating_nonpreemptive::TaskUnderAnalysis {
                rbf: &rbf,
                blocking_bound: Service::from(sc.blocking),
            };
            fp::floating_nonpreemptive::dedicated_uniproc_rta(&tua, oth, limit)
        }
    }
}

/// blocking bound the FP specification uses (the fully preemptive analysis has none)
pub fn fp_blocking(kind: Kind, sc: &Scenario) -> u64 {
    if kind == Kind::Preemptive {
        0
    } else {
        sc.blocking
    }
}

pub fn call_edf(kind: Kind, sc: &Scenario) -> SearchResult {
    let limit = Duration::from(sc.limit);
    let all = rbfs(&sc.others);
    let o = &sc.others;
    let wcet = Scalar::new(Service::from(sc.tua.cost));
    let tua_dl = Duration::from(sc.tua.dl);
    match kind {
        Kind::Preemptive => {
            let tua_rbf = mk_rbf(&sc.tua);
            let tua = edf::fully_preemptive::Task { rbf: &tua_rbf, deadline: tua_dl };
            let ot = [
                edf::fully_preemptive::Task { rbf: &all[0], deadline: Duration::from(o.t[0].dl) },
                edf::fully_preemptive::Task { rbf: &all[1], deadline: Duration::from(o.t[1].dl) },
            ];
            edf::fully_preemptive::dedicated_uniproc_rta(&tua, &ot[..o.n], limit)
        }
        Kind::NonPreemptive => {
            let tua = edf::fully_nonpreemptive::Task { wcet, arrivals: &sc.tua.curve, deadline: tua_dl };
            let ot = [
                edf::fully_nonpreemptive::Task {
                    wcet: Scalar::new(Service::from(o.t[0].cost)),
                    arrivals: &o.t[0].curve,
                    deadline: Duration::from(o.t[0].dl),
                },
                edf::fully_nonpreemptive::Task {
                    wcet: Scalar::new(Service::from(o.t[1].cost)),
                    arrivals: &o.t[1].curve,
                    deadline: Duration::from(o.t[1].dl),
                },
            ];
            edf::fully_nonpreemptive::dedicated_uniproc_rta(&tua, &ot[..o.n], limit)
        }
        Kind::Limited => {
            let tua = edf::limited_preemptive::TaskUnderAnalysis {
                wcet,
                arrivals: &sc.tua.curve,
                deadline: tua_dl,
                last_np_segment: Service::from(sc.last_seg),
            };
            let ot = [
                edf::limited_preemptive::InterferingTask {
                    rbf: &all[0],
                    deadline: Duration::from(o.t[0].dl),
                    max_np_segment: Service::from(o.t[0].np),
                },
                edf::limited_preemptive::InterferingTask {
                    rbf: &all[1],
                    deadline: Duration::from(o.t[1].dl),
                    max_np_segment: Service::from(o.t[1].np),
                },
            ];
            edf::limited_preemptive::dedicated_uniproc_rta(&tua, &ot[..o.n], limit)
        }
        Kind::Floating => {
            let tua_rbf = mk_rbf(&sc.tua);
            let tua = edf::floating_nonpreemptive::TaskUnderAnalysis { rbf: &tua_rbf, deadline: tua_dl };
            let ot = [
                edf::floating_nonpreemptive::InterferingTask {
                    rbf: &all[0],
                    deadline: Duration::from(o.t[0].dl),
                    max_np_segment: Service::from(o.t[0].np),
                },
                edf::floating_nonpreemptive::InterferingTask {
                    rbf: &all[1],
                    deadline: Duration::from(o.t[1].dl),
                    max_np_segment: Service::from(o.t[1].np),
                },
            ];
            edf::floating_nonpreemptive::dedicated_uniproc_rta(&tua, &ot[..o.n], limit)
        }
    }
}

/// effective max. non-preemptive segment of interferer `i` under EDF variant `kind`
pub fn edf_np(kind: Kind, o: &Tk) -> u64 {
    match kind {
        Kind::Preemptive => 1,
        Kind::NonPreemptive => o.cost,
        Kind::Limited | Kind::Floating => o.np,
    }
}

pub fn edf_spec_others(kind: Kind, sc: &Scenario) -> Others {
    let mut o = sc.others;
    let mut i = 0;
    while i < MAXO {
        o.t[i].np = edf_np(kind, &sc.others.t[i]);
        i += 1;
    }
    o
}

/// FIFO over the sum of the task under analysis and the first other task
pub fn fifo_tasks(sc: &Scenario) -> TwoTasks {
    TwoTasks {
        a: sc.tua.curve,
        ca: sc.tua.cost,
        b: sc.others.t[0].curve,
        cb: sc.others.t[0].cost,
    }
}

pub fn call_fifo(sc: &Scenario) -> SearchResult {
    let tt = fifo_tasks(sc);
    fifo::dedicated_uniproc_rta(&tt, Duration::from(sc.limit))
}
