//! C11 - steps_iter yields exactly the points where a bound increases.
use response_time_analysis::arrival::{
    self, ArrivalBound, ArrivalCurvePrefix, ExtrapolatingCurve, Never, Propagated,
};
use response_time_analysis::demand::{self, RequestBound, RBF};
use response_time_analysis::time::{Duration, Service};
use response_time_analysis::wcet::Scalar;

use super::arr::*;
use crate::sym::{assume, Src};
use crate::{cover, harness, reg, Table};

/// Lock-step comparison of the real `steps_iter` with a scan of the real
/// `number_arrivals` over delta = 1..=horizon: delta is yielded iff the value
/// at delta-1 is smaller than at delta; nothing below the scan position (in
/// particular no 0, no duplicate, no decreasing item) is ever yielded.
/// Returns the number of steps seen.
fn steps_match<A: ArrivalBound + ?Sized>(ab: &A, horizon: u64) -> u64 {
    let mut it = ab.steps_iter();
    let mut next = it.next();
    let mut seen = 0;
    let mut prev = na(ab, 0);
    assert!(prev == 0);
    let mut d = 1u64;
    while d <= horizon {
        let cur = na(ab, d);
        let is_step = prev < cur;
        let yielded = match next {
            Some(x) => {
                assert!(u64::from(x) >= d);
                u64::from(x) == d
            }
            None => false,
        };
        assert!(is_step == yielded);
        if yielded {
            seen += 1;
            next = it.next();
        }
        prev = cur;
        d += 1;
    }
    seen
}

/// same for request bounds (`service_needed`)
fn rbf_steps_match<R: RequestBound + ?Sized>(rb: &R, horizon: u64) -> u64 {
    let sn = |d: u64| u64::from(rb.service_needed(Duration::from(d)));
    let mut it = rb.steps_iter();
    let mut next = it.next();
    let mut seen = 0;
    let mut prev = sn(0);
    assert!(prev == 0);
    let mut d = 1u64;
    while d <= horizon {
        let cur = sn(d);
        let is_step = prev < cur;
        let yielded = match next {
            Some(x) => {
                assert!(u64::from(x) >= d);
                u64::from(x) == d
            }
            None => false,
        };
        assert!(is_step == yielded);
        if yielded {
            seen += 1;
            next = it.next();
        }
        prev = cur;
        d += 1;
    }
    seen
}

harness!(c11_periodic, 14, |s| {
    let (p, _t) = any_periodic(s, 7);
    let n = steps_match(&p, 12);
    cover!(n >= 4, "4+ steps");
});

harness!(c11_sporadic, 14, |s| {
    // jitter larger than the period included
    let (sp, t, j) = any_sporadic(s, 3, 7);
    let n = steps_match(&sp, 12);
    cover!(n >= 3 && j > t, "3+ steps with jitter larger than the period");
});

harness!(c11_never, 6, |s| {
    let _ = s.u8();
    let n = steps_match(&Never {}, 4);
    assert!(n == 0);
});

harness!(c11_sporadic_clone_with_jitter, 14, |s| {
    let (sp, _t, _j) = any_sporadic(s, 3, 3);
    let extra = s.bits(3);
    let cl = sp.clone_with_jitter(Duration::from(extra));
    let n = steps_match(&cl, 12);
    let (p, _) = any_periodic(s, 3);
    let cl2 = p.clone_with_jitter(Duration::from(extra));
    let n2 = steps_match(&cl2, 12);
    cover!(n >= 3 && n2 >= 3, "3+ steps each");
});

harness!(c11_propagated_sporadic, 7, |s| {
    let (sp, _t, _j) = any_sporadic(s, 3, 3);
    let extra = s.bits(3);
    let pr = Propagated::with_jitter(&sp, Duration::from(extra));
    let n = steps_match(&pr, 5);
    cover!(n >= 3 && extra >= 2, "3+ steps, propagation jitter >= 2");
});

harness!(c11_rbf_sporadic_scalar, 14, |s| {
    let (sp, _t, _j) = any_sporadic(s, 3, 7);
    let c = s.from(1, 3);
    let rbf = RBF::new(sp, Scalar::new(Service::from(c)));
    let n = rbf_steps_match(&rbf, 12);
    // step_offsets = steps shifted by one
    let mut so = demand::step_offsets(&rbf);
    let mut st = rbf.steps_iter();
    let mut k = 0;
    while k < 4 {
        let a = so.next();
        let b = st.next();
        match (a, b) {
            (Some(o), Some(d)) => assert!(u64::from(o) + 1 == u64::from(d)),
            (None, None) => {}
            _ => assert!(false),
        }
        k += 1;
    }
    cover!(n >= 3, "3+ steps");
});

// ---- Curve: delta-min vectors with 1-3 entries, plateaus and zero separations allowed.
// Input class of the known finding c11-curve-trailing-plateau: the last entry
// repeats the one before (vector ends in a plateau).
macro_rules! curve_steps {
    ($name:ident, $n:literal, $plateau:expr, $horizon:literal, $unwind:literal) => {
        harness!($name, $unwind, |s| {
            let d = any_dmin(s, $n, 3, 3);
            assume(d[$n - 1] >= 1);
            let ends_in_plateau = $n >= 2 && d[$n - 1] == d[if $n >= 2 { $n - 2 } else { 0 }];
            // 0: any vector, 1: only vectors ending in a plateau
            if $plateau == 1 {
                assume(ends_in_plateau);
            }
            let c = mk_curve(&d, $n);
            let n = steps_match(&c, $horizon);
            cover!(n >= 3, "3+ steps");
        });
    };
}
curve_steps!(c11_curve1, 1, 0, 8, 10);
curve_steps!(c11_curve2, 2, 0, 8, 10);
curve_steps!(c11_curve3, 3, 0, 10, 12);
// regression harnesses for the repaired defect c11-curve-trailing-plateau (small horizon, cheap)
curve_steps!(c11_curve2_plateau, 2, 1, 7, 9);
curve_steps!(c11_curve3_plateau, 3, 1, 7, 9);

harness!(c11_propagated_curve, 7, |s| {
    let d = any_dmin(s, 2, 3, 3);
    assume(d[1] >= 1);
    let c = mk_curve(&d, 2);
    let extra = s.bits(3);
    let pr = Propagated::with_jitter(&c, Duration::from(extra));
    let n = steps_match(&pr, 5);
    cover!(n >= 3 && extra >= 1, "3+ steps, jitter >= 1");
});

// known finding c11-propagated-never: a step at 1 although nothing ever arrives
harness!(c11_propagated_never, 6, |s| {
    let extra = s.bits(7);
    let pr = Propagated::with_jitter(&Never {}, Duration::from(extra));
    let n = steps_match(&pr, 4);
    assert!(n == 0);
});

// ---- ExtrapolatingCurve over a super-additive 2-entry prefix
harness!(c11_extrapolating_curve, 14, |s| {
    let d = any_dmin(s, 2, 3, 3);
    assume(d[0] >= 1 && d[1] >= 2 * d[0]);
    let c = ExtrapolatingCurve::new(mk_curve(&d, 2));
    let n = steps_match(&c, 10);
    cover!(n >= 3, "3+ steps");
});

// ---- ArrivalCurvePrefix.  Known finding c11-prefix-yields-zero: its steps_iter
// yields 0 first (pinned by the repository's own test arrival_curve_prefix_steps_iter).
fn any_prefix(s: &mut Src) -> ArrivalCurvePrefix {
    // two steps (1, n1), (x, n1 + k) inside a horizon
    let x = s.from(2, 3);
    let n1 = s.from(1, 1) as usize;
    let k = s.from(1, 1) as usize;
    let horizon = x + s.bits(3);
    let mut v = Vec::with_capacity(4);
    v.push((Duration::from(1), n1));
    v.push((Duration::from(x), n1 + k));
    ArrivalCurvePrefix::new(Duration::from(horizon), v)
}

harness!(c11_arrival_curve_prefix_b, 8, |s| {
    let p = any_prefix(s);
    let n = steps_match(&p, 6);
    cover!(n >= 3, "3+ steps");
});

// the same comparison with the leading 0 skipped: everything else must be exact
harness!(c11_arrival_curve_prefix_after_zero, 8, |s| {
    let p = any_prefix(s);
    let mut it = p.steps_iter();
    let first = it.next();
    // (the finding itself: first == Some(0); not asserted here)
    let mut next = if first == Some(Duration::from(0)) { it.next() } else { first };
    let mut prev = 0u64;
    let mut d = 1u64;
    let mut seen = 0;
    while d <= 6 {
        let cur = na(&p, d);
        let yielded = match next {
            Some(x) => {
                assert!(u64::from(x) >= d);
                u64::from(x) == d
            }
            None => false,
        };
        assert!((prev < cur) == yielded);
        if yielded {
            seen += 1;
            next = it.next();
        }
        prev = cur;
        d += 1;
    }
    cover!(seen >= 3, "3+ steps");
});

// ---- aggregates: sum_of (itertools merge + dedup), Vec / slice (k-merge model + dedup)
harness!(c11_sum_of, 12, |s| {
    let (s1, _, _) = any_sporadic(s, 3, 3);
    let (s2, _, _) = any_sporadic(s, 3, 3);
    let so = arrival::sum_of(s1, s2);
    let n = steps_match(&so, 8);
    cover!(n >= 4, "4+ steps");
});

pub fn register(t: &mut Table) {
    reg!(t;
        c11_periodic, c11_sporadic, c11_never, c11_sporadic_clone_with_jitter,
        c11_propagated_sporadic, c11_rbf_sporadic_scalar,
        c11_curve1, c11_curve2, c11_curve3, c11_curve2_plateau, c11_curve3_plateau,
        c11_propagated_never,
        c11_arrival_curve_prefix_b, c11_arrival_curve_prefix_after_zero, c11_sum_of,
    );
}

// demand::Slice / Aggregate steps_iter (k-merge + dedup of boxed step iterators): a harness with 2
// components of 2-step curves, first 3 items, unwind 5 produced no verdict within 50 minutes
// (phantom recursion through Box<dyn Iterator>, DESIGN.md 2.1 item 6) - outside the claim.
