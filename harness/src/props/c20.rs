//! C20 - analyses are total and independent of the build profile.
//!
//! (1) Totality: every harness of this crate runs with Kani's default checks -
//! explicit panics, unwrap on None, index out of bounds, division by zero,
//! arithmetic overflow (always on under Kani), the crate's own debug
//! assertions/cross-checks (in the `dbg` configuration) and unwinding
//! assertions (termination within the bound).  The harnesses below call every
//! public analysis on well-formed inputs with no assertion of their own beyond
//! well-formedness of the result.
//! (2) Profile independence: the equality harnesses of C06/C07 (real result ==
//! independent evaluator) are decided a second time against the crate compiled
//! WITHOUT debug assertions (configuration `nodbg`); both builds equal the same
//! evaluator on every input in the bounds, hence each other.  Checked and
//! wrapping arithmetic coincide where (1) shows no overflow is reachable.
use response_time_analysis::arrival::{ArrivalBound, ArrivalCurvePrefix, Curve};
use response_time_analysis::demand::RBF;
use response_time_analysis::time::{Duration, Offset, Service};
use response_time_analysis::wcet::Scalar;
use response_time_analysis::{fifo, fixed_priority as fp};

use super::c06;
use super::c07::{any_escenario, any_workload, call_ecrts19, call_rr, SupKind, EQ, RQ};
use super::calls::*;
use crate::sym::{assume, Src};
use crate::{cover, harness, reg, Table};
use response_time_analysis::supply::{Constrained, Dedicated, Periodic};

// ---- (1) totality of the nine dedicated-processor analyses and the ROS 2 analyses
harness!(c20_total_fp, 6, |s| {
    let sc = any_scenario(s, &c06::Q);
    let kind = match s.bits(3) { 0 => Kind::Preemptive, 1 => Kind::NonPreemptive, 2 => Kind::Limited, _ => Kind::Floating };
    let r = call_fp(kind, &sc);
    assert!(err_payload_ok(&r, sc.limit));
    cover!(r.is_ok(), "Ok");
    cover!(r.is_err(), "Err");
});

harness!(c20_total_fifo, 6, |s| {
    let sc = any_scenario(s, &c06::Q);
    let r = call_fifo(&sc);
    assert!(err_payload_ok(&r, sc.limit));
    cover!(r.is_ok(), "Ok");
});

fn total_ros(s: &mut Src, which: u8, sk: SupKind) {
    let sc = any_escenario(s, sk, &EQ);
    let r = call_ecrts19(which, &sc);
    cover!(r.is_ok(), "Ok");
    cover!(r.is_err(), "Err");
}
harness!(c20_total_ros_timer_constrained, 8, |s| { total_ros(s, 1, SupKind::Constrained); });
harness!(c20_total_ros_chain_dedicated, 8, |s| { total_ros(s, 3, SupKind::Dedicated); });

harness!(c20_total_rr, 9, |s| {
    let w = any_workload(s, &RQ);
    let limit = s.from(1, 7);
    assume(limit <= 6);
    let p = s.from(1, 1);
    let q = s.from(1, 1);
    assume(q <= p);
    let r = call_rr(&Periodic::new(Service::from(q), Duration::from(p)), &w, &[0, 1], limit);
    cover!(r.is_ok(), "Ok");
});

// bw: call only (not registered in any check).  Even without an evaluator the query has 13 M
// variables / 149 M clauses and exhausts 26 GB within 6 minutes: bw::rta_subchain is out of
// reach for this engine at any shape tried (DESIGN.md section 8).
harness!(c20_total_bw, 6, |s| {
    use crate::props::c07::{call_bw, BQ};
    let w = any_workload(s, &BQ);
    let limit = s.from(1, 3);
    assume(limit <= 3);
    let r = call_bw(&Dedicated::new(), &w, &[1], limit);
    cover!(r.is_ok(), "Ok");
    cover!(r.is_err(), "Err");
});

// ---- known finding c20-prefix-rbf: an RBF over an ArrivalCurvePrefix (whose steps_iter
// yields 0 first, finding c11-prefix-yields-zero) makes step_offsets underflow: a panic in
// checked builds, Ok(0) in release builds
harness!(c20_prefix_rbf_b, 8, |s| {
    let x = s.from(2, 3);
    let mut v = Vec::with_capacity(4);
    v.push((Duration::from(1), 1usize));
    v.push((Duration::from(x), 2usize));
    let p = ArrivalCurvePrefix::new(Duration::from(x + 2), v);
    let rbf = RBF::new(p, Scalar::new(Service::from(1)));
    let r = fifo::dedicated_uniproc_rta(&rbf, Duration::from(8));
    // one job of cost 1 arrives at once: the bound cannot be 0
    assert!(r != Ok(Duration::from(0)));
});

// ---- known finding c20-all-zero-delta-min: a trace with simultaneous events and a short
// prefix yields an all-zero delta-min vector; every query then divides by zero
harness!(c20_all_zero_dmin_b, 8, |s| {
    let t = s.bits(7);
    let gap = s.from(1, 7);
    // two simultaneous events, then a third one; prefix_jobs = 1 records only adjacent gaps
    let ev = [Offset::from(t), Offset::from(t), Offset::from(t + gap)];
    let c = Curve::from_trace(ev.iter().copied(), 1);
    let d = s.from(1, 7);
    let _ = c.number_arrivals(Duration::from(d));
});

// the complement: traces whose recorded prefix is not all-zero never panic (also C12)
fn from_trace_total(s: &mut Src, pj: usize) {
    let t = s.bits(7);
    let g1 = s.from(1, 7);
    let g2 = s.bits(7);
    let ev = [Offset::from(t), Offset::from(t + g1), Offset::from(t + g1 + g2)];
    // the recorded prefix must not be all-zero: with prefix_jobs = 1 only adjacent gaps are
    // recorded (their minimum must be positive), otherwise the span of all three events
    assume(if pj == 1 { g2 >= 1 } else { g1 + g2 >= 1 });
    let c = Curve::from_trace(ev.iter().copied(), pj);
    let d = s.bits(63);
    let n = c.number_arrivals(Duration::from(d));
    assert!(d == 0 || n >= 1);
    cover!(n >= 5, "5+ arrivals");
}
harness!(c20_from_trace_total_1, 8, |s| { from_trace_total(s, 1); });
harness!(c20_from_trace_total_2, 8, |s| { from_trace_total(s, 2); });

pub fn register(t: &mut Table) {
    reg!(t;
        c20_total_fp, c20_total_fifo, c20_total_ros_timer_constrained, c20_total_ros_chain_dedicated, c20_total_rr, c20_total_bw,
        c20_prefix_rbf_b, c20_all_zero_dmin_b, c20_from_trace_total_1, c20_from_trace_total_2,
    );
}

#[allow(dead_code)]
fn _unused() {
    let _ = (Dedicated::new(), Constrained::new(Service::from(1), Duration::from(1), Duration::from(1)));
    let _ = fp::fully_preemptive::dedicated_uniproc_rta::<Rbf, Rbf>;
}
