//! C04 - the ECRTS'19 ROS 2 executor analyses are safe under reservation supply.
use response_time_analysis::ros2;
use response_time_analysis::time::{Duration, Service};

use super::c07::{any_src1, any_sup, mk_rbf, with_supply, SupKind};
use crate::models::curve::{Releases, MAXN};
use crate::models::demand::TwoTasks;
use crate::models::executor::*;
use crate::spec::ros2::{Src1, Sup};
use crate::sym::{assume, Src};
use crate::{cover, harness, reg, rep, Table};
use response_time_analysis::supply::{Constrained, Dedicated, Periodic};

#[derive(Clone, Copy)]
pub struct XShape {
    pub nsteps: usize,
    pub inc_mask: u8,
    pub cost_mask: u8,
    pub limit_mask: u8,
    pub limit_max: u64,
    pub pmask: u8,
    pub first_mask: u8,
    pub gap_mask: u8,
}

pub const XQ: XShape = XShape { nsteps: 2, inc_mask: 3, cost_mask: 1, limit_mask: 7, limit_max: 6, pmask: 1, first_mask: 1, gap_mask: 3 };
pub const XT: XShape = XShape { nsteps: 2, inc_mask: 3, cost_mask: 1, limit_mask: 7, limit_max: 8, pmask: 3, first_mask: 3, gap_mask: 3 };

pub fn absent_cb() -> CbCfg {
    CbCfg { present: false, is_timer: false, rank: 9, wcet: 1, next: NOBODY }
}

/// admissible instances of a callback with arrival curve / WCET `src`
pub fn any_inst(s: &mut Src, src: &Src1, sh: &XShape) -> Inst {
    let r = Releases::any(s, &src.curve, sh.first_mask, sh.gap_mask);
    let mut cost = [1u64; MAXN];
    let mut i = 0;
    while i < MAXN {
        let x = 1 + s.bits(3);
        cost[i] = if x > src.cost { src.cost } else { x };
        i += 1;
    }
    Inst { arr: r.r, cost, m: r.m }
}

pub fn slots_for(s: &mut Src, sup: &Sup) -> Slots {
    match *sup {
        Sup::Dedicated => Slots::dedicated(),
        Sup::Periodic(q, p) => Slots::any(s, q, p, p),
        Sup::Constrained(q, d, p) => Slots::any(s, q, d, p),
    }
}

/// 0 = event source, 1 = timer, 2 = polling-point callback, 3 = processing chain
fn setup(s: &mut Src, which: u8, sk: SupKind, sh: &XShape) -> Option<(Exec, Slots, u64)> {
    let sup = any_sup(s, sk, sh.pmask);
    // callback 0 is the one under analysis (for chains: the chain's first callback,
    // callback 1 its last); the roles of the others depend on the analysis
    let c0 = any_src1(s, sh.nsteps, sh.inc_mask, sh.cost_mask);
    let c1 = any_src1(s, sh.nsteps, sh.inc_mask, sh.cost_mask);
    let c2 = any_src1(s, sh.nsteps, sh.inc_mask, sh.cost_mask);
    let limit = s.from(1, sh.limit_mask);
    assume(limit <= sh.limit_max);
    let limit_d = Duration::from(limit);
    let r0 = mk_rbf(&c0);
    let r1 = mk_rbf(&c1);
    let r2 = mk_rbf(&c2);
    let mut cfg = [absent_cb(); NCB];
    let res = match which {
        0 => {
            // a single event source, served in FIFO order
            cfg[0] = CbCfg { present: true, is_timer: true, rank: 0, wcet: c0.cost, next: NOBODY };
            with_supply!(sup, |x| ros2::rta_event_source(&x, &r0, limit_d))
        }
        1 => {
            // timer under analysis, one higher-priority timer, one polled callback (lower priority)
            cfg[0] = CbCfg { present: true, is_timer: true, rank: 1, wcet: c0.cost, next: NOBODY };
            cfg[1] = CbCfg { present: true, is_timer: true, rank: 0, wcet: c1.cost, next: NOBODY };
            cfg[2] = CbCfg { present: true, is_timer: false, rank: 0, wcet: c2.cost, next: NOBODY };
            // blocking: the largest WCET of a lower-priority callback
            with_supply!(sup, |x| ros2::rta_timer(&x, &r0, &r1, Service::from(c2.cost), limit_d))
        }
        2 => {
            // polled callback under analysis, one timer, one other polled callback whose
            // priority relative to it is symbolic; all other callbacks interfere
            let other_first = s.flag();
            cfg[0] = CbCfg { present: true, is_timer: false, rank: if other_first { 1 } else { 0 }, wcet: c0.cost, next: NOBODY };
            cfg[1] = CbCfg { present: true, is_timer: true, rank: 0, wcet: c1.cost, next: NOBODY };
            cfg[2] = CbCfg { present: true, is_timer: false, rank: if other_first { 0 } else { 1 }, wcet: c2.cost, next: NOBODY };
            let others = TwoTasks { a: c1.curve, ca: c1.cost, b: c2.curve, cb: c2.cost };
            with_supply!(sup, |x| ros2::rta_polling_point_callback(&x, &r0, &others, limit_d))
        }
        _ => {
            // chain c0 -> c1 of polled callbacks triggered by c0's arrivals; c2: another
            // callback (timer or polled, symbolic) with symbolic relative priority
            let c2_timer = s.flag();
            let rk = s.bits(3);
            assume(rk <= 2);
            // ranks: c2 takes position rk among {c0, c1, c2}
            let r_c0 = if rk == 0 { 1 } else { 0 };
            let r_c1 = if rk <= 1 { 2 } else { 1 };
            cfg[0] = CbCfg { present: true, is_timer: false, rank: r_c0, wcet: c0.cost, next: 1 };
            cfg[1] = CbCfg { present: true, is_timer: false, rank: r_c1, wcet: c1.cost, next: NOBODY };
            cfg[2] = CbCfg { present: true, is_timer: c2_timer, rank: rk, wcet: c2.cost, next: NOBODY };
            // every callback of the chain is activated once per source event
            let last = mk_rbf(&Src1 { curve: c0.curve, cost: c1.cost });
            let full = TwoTasks { a: c0.curve, ca: c0.cost, b: c0.curve, cb: c1.cost };
            with_supply!(sup, |x| ros2::rta_processing_chain(&x, &last, &r0, &full, &r2, limit_d))
        }
    };
    let r = match res {
        Ok(d) => u64::from(d),
        Err(_) => return None,
    };
    // symbolic compliant arrivals and execution times
    let mut inst = [Inst::none(); NCB];
    inst[0] = any_inst(s, &c0, sh);
    if which >= 1 && which != 3 {
        inst[1] = any_inst(s, &c1, sh);
    }
    if which == 3 {
        // instances of the chain's last callback are released by completions of the first;
        // their execution times are symbolic
        let mut cost = [1u64; MAXN];
        let mut i = 0;
        while i < MAXN {
            let x = 1 + s.bits(3);
            cost[i] = if x > c1.cost { c1.cost } else { x };
            i += 1;
        }
        inst[1] = Inst { arr: [0; MAXN], cost, m: 0 };
    }
    if which >= 1 {
        inst[2] = any_inst(s, &c2, sh);
    }
    let slots = slots_for(s, &sup);
    let ex = Exec::new(cfg, inst);
    Some((ex, slots, r))
}

pub fn setup_for_selftest(s: &mut Src, which: u8, sk: SupKind) -> Option<(Exec, Slots, u64)> {
    setup(s, which, sk, &XQ)
}

macro_rules! exec_harness {
    ($name:ident, $unwind:literal, $h:tt, $which:literal, $sk:expr, $shape:expr) => {
        harness!($name, $unwind, |s| {
            if let Some((mut ex, slots, r)) = setup(s, $which, $sk, &$shape) {
                // the analysed instances must be able to finish inside the simulated horizon
                assume(ex.last_arrival(0) + r <= $h);
                let mut ti = 0usize;
                rep!($h, {
                    ex.tick(s, slots.s[ti]);
                    ti += 1;
                });
                let target = if $which == 3 { 1 } else { 0 };
                if $which == 3 {
                    // every source event whose chain instance was released in time
                    assert!(ex.inst[1].m <= ex.inst[0].m);
                    let mut k = 0;
                    while k < MAXN {
                        if k < ex.inst[0].m {
                            // the chain instance triggered by source event k completes within r
                            assert!(k < ex.inst[1].m);
                        }
                        k += 1;
                    }
                }
                assert!(ex.all_within(target, r));
                cover!(r >= 3 && ex.inst[target].m >= 1 && ex.max_response(target) >= 3, "Ok(R) with R >= 3 and an instance with response >= 3");
            }
        });
    };
}

exec_harness!(c04_event_source_q, 9, 12, 0, SupKind::Periodic, XQ);
exec_harness!(c04_timer_q, 9, 12, 1, SupKind::Periodic, XQ);
exec_harness!(c04_pp_q, 9, 12, 2, SupKind::Periodic, XQ);
exec_harness!(c04_chain_q, 9, 12, 3, SupKind::Periodic, XQ);

exec_harness!(c04_event_source_t, 11, 16, 0, SupKind::Constrained, XT);
exec_harness!(c04_timer_t, 11, 16, 1, SupKind::Constrained, XT);
exec_harness!(c04_pp_t, 11, 16, 2, SupKind::Periodic, XT);
exec_harness!(c04_chain_t, 11, 16, 3, SupKind::Periodic, XT);

pub fn register(t: &mut Table) {
    reg!(t;
        c04_event_source_q, c04_timer_q, c04_pp_q, c04_chain_q,
        c04_event_source_t, c04_timer_t, c04_pp_t, c04_chain_t,
    );
}
