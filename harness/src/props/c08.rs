//! C08 - fixed-point search returns the least solution or reports divergence.
use response_time_analysis::fixed_point::{self, SearchFailure, SearchResult};
use response_time_analysis::supply::{Constrained, Dedicated, Periodic, SupplyBound};
use response_time_analysis::time::{Duration, Offset, Service};

use crate::models::supply::SymSupply;
use crate::sym::{assume, Src};
use crate::{cover, harness, reg, Table};

const WL: usize = 8;

/// symbolic non-decreasing step-shaped workload table w(1..=8), constant beyond
#[derive(Clone, Copy)]
pub struct Workload {
    tab: [u64; WL],
}

impl Workload {
    pub fn any(s: &mut Src, first_mask: u8, inc_mask: u8) -> Workload {
        let mut tab = [0u64; WL];
        let mut v = s.bits(first_mask);
        let mut i = 0;
        while i < WL {
            if i > 0 {
                v += s.bits(inc_mask);
            }
            tab[i] = v;
            i += 1;
        }
        Workload { tab }
    }
    #[inline(always)]
    pub fn at(&self, a: u64) -> u64 {
        let mut v = self.tab[WL - 1];
        let mut i = 0;
        while i < WL {
            if (i as u64) + 1 == a {
                v = self.tab[i];
            }
            i += 1;
        }
        v
    }
}

fn sbf<S: SupplyBound + ?Sized>(s: &S, d: u64) -> u64 {
    u64::from(s.provided_service(Duration::from(d)))
}

/// least r in [0, rmax] with sbf(offset + r) >= w(max(r, 1)), by linear scan
fn spec_least<S: SupplyBound>(sup: &S, w: &Workload, offset: u64, rmax: u64) -> Option<u64> {
    let mut r = 0u64;
    while r <= rmax {
        let need = w.at(if r == 0 { 1 } else { r });
        if sbf(sup, offset + r) >= need {
            return Some(r);
        }
        r += 1;
    }
    None
}

fn check_search_with_offset<S: SupplyBound>(s: &mut Src, sup: &S) {
    check_swo(s, sup, 3, 3, 7, 6, 7, 5)
}

fn check_swo<S: SupplyBound>(s: &mut Src, sup: &S, first_mask: u8, inc_mask: u8, off_mask: u8, off_max: u64, lim_mask: u8, big: u64) {
    let w = Workload::any(s, first_mask, inc_mask);
    let offset = s.bits(off_mask);
    assume(offset <= off_max);
    let limit = s.from(1, lim_mask);
    // precondition: the offset lies inside the busy window (no earlier instant already
    // serves w(1)); otherwise Offset::distance_to underflows - that is C20's subject
    assume(offset == 0 || sbf(sup, offset - 1) < w.at(1));

    let wl = |d: Duration| Service::from(w.at(u64::from(d)));
    let got = fixed_point::search_with_offset(sup, Offset::from(offset), Duration::from(limit), &wl);
    let want = spec_least(sup, &w, offset, 1 + lim_mask as u64);

    match want {
        Some(r) if r <= limit => {
            assert!(got == Ok(Duration::from(r)));
        }
        _ => {
            // no solution at or below the limit (the scan covers every r <= limit)
            assert!(
                got == Err(SearchFailure::DivergenceLimitExceeded {
                    offset: Offset::from(offset),
                    limit: Duration::from(limit),
                })
            );
        }
    }
    // an Ok result never changes when the limit is raised
    let limit2 = limit + s.bits(lim_mask);
    let got2 = fixed_point::search_with_offset(sup, Offset::from(offset), Duration::from(limit2), &wl);
    if got.is_ok() {
        assert!(got2 == got);
    }
    cover!(matches!(got, Ok(d) if u64::from(d) >= big), "Ok(r) with large r");
    cover!(got.is_err(), "divergence error");
    cover!(got == Ok(Duration::from(0)), "Ok(0)");
    cover!(matches!(got, Ok(d) if u64::from(d) == limit && limit >= 3), "fixed point equal to the limit");
}

harness!(c08_swo_dedicated, 12, |s| {
    check_search_with_offset(s, &Dedicated::new());
});

harness!(c08_swo_periodic, 12, |s| {
    let p = s.from(1, 3);
    let q = s.from(1, 3);
    assume(q <= p);
    check_search_with_offset(s, &Periodic::new(Service::from(q), Duration::from(p)));
});

harness!(c08_swo_constrained, 12, |s| {
    let p = s.from(1, 3);
    let d = s.from(1, 3);
    let q = s.from(1, 3);
    assume(q <= d && d <= p);
    check_search_with_offset(s, &Constrained::new(Service::from(q), Duration::from(d), Duration::from(p)));
});

// user-defined supply through the trait's default service_time
harness!(c08_swo_symsupply, 9, |s| {
    let sup = SymSupply::any(s);
    check_swo(s, &sup, 1, 1, 3, 3, 3, 3);
});

fn check_search<S: SupplyBound>(s: &mut Src, sup: &S) {
    let w = Workload::any(s, 3, 3);
    let limit = s.from(1, 7);
    let wl = |d: Duration| Service::from(w.at(u64::from(d)));
    // includes the crate's debug-only brute-force cross-check (a panic if it disagrees)
    let got = fixed_point::search(sup, Duration::from(limit), wl);
    match spec_least(sup, &w, 0, 8) {
        Some(r) if r <= limit => assert!(got == Ok(Duration::from(r))),
        _ => assert!(
            got == Err(SearchFailure::DivergenceLimitExceeded {
                offset: Offset::from(0),
                limit: Duration::from(limit),
            })
        ),
    }
    cover!(matches!(got, Ok(d) if u64::from(d) >= 5), "Ok(r) with r >= 5");
    cover!(got.is_err(), "divergence error");
    cover!(got == Ok(Duration::from(0)), "Ok(0) for zero demand");
}

harness!(c08_search_dedicated, 12, |s| {
    check_search(s, &Dedicated::new());
});

harness!(c08_search_periodic, 12, |s| {
    let p = s.from(1, 3);
    let q = s.from(1, 3);
    assume(q <= p);
    check_search(s, &Periodic::new(Service::from(q), Duration::from(p)));
});

harness!(c08_search_symsupply, 12, |s| {
    let sup = SymSupply::any(s);
    check_search(s, &sup);
});

// max_response_time: first error, else maximum, else zero
fn any_result(s: &mut Src) -> SearchResult {
    let kind = s.bits(3);
    let v = s.bits(15);
    let o = s.bits(7);
    if kind == 0 {
        Err(SearchFailure::DivergenceLimitExceeded {
            offset: Offset::from(o),
            limit: Duration::from(v),
        })
    } else if kind == 1 {
        Err(SearchFailure::AssumptionViolated)
    } else {
        Ok(Duration::from(v))
    }
}

fn check_max_rt(s: &mut Src, n: usize) -> (SearchResult, SearchResult) {
    let mut rs: [SearchResult; 4] = [Ok(Duration::from(0)); 4];
    let mut i = 0;
    while i < 4 {
        if i < n {
            rs[i] = any_result(s);
        }
        i += 1;
    }
    let got = fixed_point::max_response_time(rs[..n].iter().copied());
    // spec
    let mut first_err: Option<SearchResult> = None;
    let mut mx = 0u64;
    let mut i = 0;
    while i < 4 {
        if i < n {
            match rs[i] {
                Err(_) => {
                    if first_err.is_none() {
                        first_err = Some(rs[i]);
                    }
                }
                Ok(d) => {
                    if u64::from(d) > mx {
                        mx = u64::from(d);
                    }
                }
            }
        }
        i += 1;
    }
    match first_err {
        Some(e) => assert!(got == e),
        None => assert!(got == Ok(Duration::from(mx))),
    }
    (got, rs[0])
}

fn maxrt_covers(r: (SearchResult, SearchResult)) {
    cover!(r.0.is_err() && r.1.is_ok(), "error that is not the first element");
    cover!(matches!(r.0, Ok(d) if u64::from(d) >= 9), "Ok maximum >= 9");
}

harness!(c08_maxrt_0, 6, |s| {
    let r = check_max_rt(s, 0);
    assert!(r.0 == Ok(Duration::from(0)));
});
harness!(c08_maxrt_1, 6, |s| {
    let r = check_max_rt(s, 1);
    cover!(r.0.is_err(), "single error");
});
harness!(c08_maxrt_2, 6, |s| { maxrt_covers(check_max_rt(s, 2)); });
harness!(c08_maxrt_3, 6, |s| { maxrt_covers(check_max_rt(s, 3)); });
harness!(c08_maxrt_4, 6, |s| { maxrt_covers(check_max_rt(s, 4)); });

pub fn register(t: &mut Table) {
    reg!(t;
        c08_swo_dedicated, c08_swo_periodic, c08_swo_constrained, c08_swo_symsupply,
        c08_search_dedicated, c08_search_periodic, c08_search_symsupply,
        c08_maxrt_0, c08_maxrt_1, c08_maxrt_2, c08_maxrt_3, c08_maxrt_4,
    );
}
