//! C06 - FP/EDF/FIFO bounds equal exhaustive evaluation of their defining equations.
use super::calls::*;
use crate::spec::uniproc as spec;
use crate::{cover, harness, reg, Table};

pub const Q: Shape = Shape {
    n_tua: 2, n_others: 1, n_oth: 2, inc_mask: 3, cost_mask: 1,
    limit_mask: 3, limit_max: 4, dl_mask: 3, b_mask: 1,
};
pub const T: Shape = Shape {
    n_tua: 3, n_others: 1, n_oth: 3, inc_mask: 3, cost_mask: 1,
    limit_mask: 7, limit_max: 6, dl_mask: 7, b_mask: 3,
};
/// EDF thorough: the EDF analyses are 5-10x more expensive (k-merge search space)
pub const TE: Shape = Shape {
    n_tua: 3, n_others: 1, n_oth: 3, inc_mask: 3, cost_mask: 1,
    limit_mask: 3, limit_max: 4, dl_mask: 7, b_mask: 0,
};
pub const QE: Shape = Shape {
    n_tua: 2, n_others: 1, n_oth: 2, inc_mask: 3, cost_mask: 1,
    limit_mask: 3, limit_max: 3, dl_mask: 3, b_mask: 0,
};

/// the other task never releases a job (arrival::Never-like curve with zero steps) but has
/// a later deadline and a long non-preemptive section: it must not block
pub const QEN: Shape = Shape {
    n_tua: 2, n_others: 1, n_oth: 0, inc_mask: 3, cost_mask: 3,
    limit_mask: 3, limit_max: 3, dl_mask: 3, b_mask: 0,
};

/// the second task never arrives: busy windows of length 1 become possible
pub const QS: Shape = Shape {
    n_tua: 2, n_others: 1, n_oth: 0, inc_mask: 3, cost_mask: 1,
    limit_mask: 3, limit_max: 4, dl_mask: 3, b_mask: 1,
};

/// two other tasks (one job each): exercises the k-merge of two shifted step streams.  With
/// limit <= 3 all three WCETs are 1, so the segments cannot differ; the same shape with
/// limit <= 5 (needed to tell `max` from `min` in the blocking term, seeded change C02-2)
/// grew beyond 28 GB / 1 h and was dropped (DESIGN.md section 10)
pub const QE2: Shape = Shape {
    n_tua: 1, n_others: 2, n_oth: 1, inc_mask: 3, cost_mask: 1,
    limit_mask: 3, limit_max: 3, dl_mask: 3, b_mask: 0,
};

pub fn fp_body(s: &mut crate::Src, kind: Kind, sh: &Shape) {
    let sc = any_scenario(s, sh);
    let got = call_fp(kind, &sc);
    let want = spec::fp(&sc.tua, &sc.others, fp_blocking(kind, &sc), kind.rem_cost(&sc), sc.limit);
    assert!(to_spec(&got) == want);
    assert!(err_payload_ok(&got, sc.limit));
    cover!(matches!(want, Some(r) if r >= 3), "Ok(R) with R >= 3");
    cover!(want.is_none(), "divergence");
}

pub fn edf_body(s: &mut crate::Src, kind: Kind, sh: &Shape) {
    let sc = any_scenario(s, sh);
    let got = call_edf(kind, &sc);
    let o = edf_spec_others(kind, &sc);
    let want = spec::edf(&sc.tua, &o, kind != Kind::Preemptive, kind.rem_cost(&sc), sc.limit);
    assert!(to_spec(&got) == want);
    assert!(err_payload_ok(&got, sc.limit));
    cover!(matches!(want, Some(r) if r >= 3), "Ok(R) with R >= 3");
    cover!(want.is_none(), "divergence");
}

pub fn fifo_body(s: &mut crate::Src, sh: &Shape) {
    let sc = any_scenario(s, sh);
    let got = call_fifo(&sc);
    let tt = fifo_tasks(&sc);
    let want = spec::fifo(|x| tt.rbf(x), sc.limit);
    assert!(to_spec(&got) == want);
    assert!(err_payload_ok(&got, sc.limit));
    cover!(matches!(want, Some(r) if r >= 3), "Ok(R) with R >= 3");
    cover!(want.is_none(), "divergence");
}

harness!(c06_fp_p_q, 6, |s| { fp_body(s, Kind::Preemptive, &Q); });
harness!(c06_fp_np_q, 6, |s| { fp_body(s, Kind::NonPreemptive, &Q); });
harness!(c06_fp_lp_q, 6, |s| { fp_body(s, Kind::Limited, &Q); });
harness!(c06_fp_fl_q, 6, |s| { fp_body(s, Kind::Floating, &Q); });
harness!(c06_edf_p_q, 5, |s| { edf_body(s, Kind::Preemptive, &QE); });
harness!(c06_edf_np_q, 5, |s| { edf_body(s, Kind::NonPreemptive, &QE); });
harness!(c06_edf_lp_q, 5, |s| { edf_body(s, Kind::Limited, &QE); });
harness!(c06_edf_fl_q, 5, |s| { edf_body(s, Kind::Floating, &QE); });
harness!(c06_fifo_q, 6, |s| { fifo_body(s, &Q); });
harness!(c06_fifo_single_q, 6, |s| { fifo_body(s, &QS); });
harness!(c06_fp_np_single_q, 6, |s| { fp_body(s, Kind::NonPreemptive, &QS); });

harness!(c06_fp_p_t, 8, |s| { fp_body(s, Kind::Preemptive, &T); });
harness!(c06_fp_np_t, 8, |s| { fp_body(s, Kind::NonPreemptive, &T); });
harness!(c06_fp_lp_t, 8, |s| { fp_body(s, Kind::Limited, &T); });
harness!(c06_fp_fl_t, 8, |s| { fp_body(s, Kind::Floating, &T); });
harness!(c06_edf_p_t, 6, |s| { edf_body(s, Kind::Preemptive, &TE); });
harness!(c06_edf_np_t, 6, |s| { edf_body(s, Kind::NonPreemptive, &TE); });
harness!(c06_edf_lp_t, 6, |s| { edf_body(s, Kind::Limited, &TE); });
harness!(c06_edf_fl_t, 6, |s| { edf_body(s, Kind::Floating, &TE); });
harness!(c06_fifo_t, 8, |s| { fifo_body(s, &T); });
harness!(c06_edf_np_never_t, 5, |s| { edf_body(s, Kind::NonPreemptive, &QEN); });
harness!(c06_edf_fl_two_others_t, 5, |s| { edf_body(s, Kind::Floating, &QE2); });
harness!(c06_edf_np_two_others_t, 5, |s| { edf_body(s, Kind::NonPreemptive, &QE2); });

// ---- instances with the crate's real Sporadic type (jitter larger than the period included):
// the reference counts arrivals by the textbook formula ceil((delta + J) / T)
fn sporadic_na(t: u64, j: u64, d: u64) -> u64 {
    if d == 0 { 0 } else { (d + j + t - 1) / t }
}

fn fp_sporadic_body(s: &mut crate::Src, kind: Kind, limit_max: u64) {
    use response_time_analysis::arrival::Sporadic;
    use response_time_analysis::demand::RBF;
    use response_time_analysis::time::{Duration, Service};
    use response_time_analysis::wcet::Scalar;
    use response_time_analysis::fixed_priority as fp;
    let (t1, j1, c1) = (s.from(1, 3), s.bits(3), s.from(1, 1));
    let (t2, j2, c2) = (s.from(1, 3), s.bits(3), s.from(1, 1));
    let blocking = s.bits(1);
    let last = s.from(1, 1);
    crate::assume(last <= c1);
    let limit = s.from(1, 7);
    crate::assume(limit <= limit_max);
    let a1 = Sporadic::new(Duration::from(t1), Duration::from(j1));
    let a2 = Sporadic::new(Duration::from(t2), Duration::from(j2));
    let others = [RBF::new(a2, Scalar::new(Service::from(c2)))];
    let wcet = Scalar::new(Service::from(c1));
    let lim = Duration::from(limit);
    let (got, b, rem) = match kind {
        Kind::Preemptive => {
            let tua = RBF::new(a1, wcet);
            (fp::fully_preemptive::dedicated_uniproc_rta(&tua, &others, lim), 0, 0)
        }
        Kind::NonPreemptive => {
            let tua = fp::fully_nonpreemptive::TaskUnderAnalysis { wcet, arrivals: &a1, blocking_bound: Service::from(blocking) };
            (fp::fully_nonpreemptive::dedicated_uniproc_rta(&tua, &others, lim), blocking, c1 - 1)
        }
        _ => {
            let tua = fp::limited_preemptive::TaskUnderAnalysis { wcet, arrivals: &a1, last_np_segment: Service::from(last), blocking_bound: Service::from(blocking) };
            (fp::limited_preemptive::dedicated_uniproc_rta(&tua, &others, lim), blocking, last - 1)
        }
    };
    let want = spec::fp_generic(|d| sporadic_na(t1, j1, d) * c1, |d| sporadic_na(t2, j2, d) * c2, b, rem, limit);
    assert!(to_spec(&got) == want);
    assert!(err_payload_ok(&got, limit));
    cover!(matches!(want, Some(r) if r >= 3) && j1 >= t1, "Ok(R) with R >= 3 and jitter at least the period");
    cover!(want.is_none(), "divergence");
}
harness!(c06_fp_p_sporadic_t, 8, |s| { fp_sporadic_body(s, Kind::Preemptive, 6); });
harness!(c06_fp_np_sporadic_t, 8, |s| { fp_sporadic_body(s, Kind::NonPreemptive, 6); });
harness!(c06_fp_lp_sporadic_t, 8, |s| { fp_sporadic_body(s, Kind::Limited, 6); });

pub fn register(t: &mut Table) {
    reg!(t;
        c06_fp_p_q, c06_fp_np_q, c06_fp_lp_q, c06_fp_fl_q,
        c06_edf_p_q, c06_edf_np_q, c06_edf_lp_q, c06_edf_fl_q, c06_fifo_q, c06_fifo_single_q, c06_fp_np_single_q,
        c06_fp_p_sporadic_t, c06_fp_np_sporadic_t, c06_fp_lp_sporadic_t,
        c06_fp_p_t, c06_fp_np_t, c06_fp_lp_t, c06_fp_fl_t,
        c06_edf_p_t, c06_edf_np_t, c06_edf_lp_t, c06_edf_fl_t, c06_fifo_t, c06_edf_np_never_t, c06_edf_fl_two_others_t, c06_edf_np_two_others_t,
    );
}
