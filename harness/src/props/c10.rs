//! C10 - arrival models never undercount the event processes they describe.
use response_time_analysis::arrival::{self, ArrivalBound, Never, Propagated};
use response_time_analysis::time::Duration;

use super::arr::*;
use crate::sym::{assume, Src};
use crate::{cover, harness, reg, Table};

fn zero_and_monotone<A: ArrivalBound + ?Sized>(ab: &A, d: u64) {
    assert!(na(ab, 0) == 0);
    assert!(na(ab, d) <= na(ab, d + 1));
}

fn window(s: &mut Src, start_mask: u8, len_mask: u8) -> (u64, u64) {
    (s.bits(start_mask), s.bits(len_mask))
}

// ---- Sporadic / Periodic
harness!(c10_sporadic_events, 7, |s| {
    let (sp, t, j) = any_sporadic(s, 7, 15);
    let arr = any_sporadic_arrivals(s, 5, t, false, 3);
    let rel = arr.delayed(s, j, 15);
    let (start, len) = window(s, 63, 63);
    let cnt = rel.count_in(start, len);
    assert!(cnt <= na(&sp, len));
    zero_and_monotone(&sp, len);
    cover!(cnt == na(&sp, len) && cnt >= 4, "window with 4+ events attains the bound");
});

harness!(c10_sporadic_attained_subadditive, 9, |s| {
    let (sp, t, j) = any_sporadic(s, 7, 15);
    // witness: arrivals at k*T, release = max(k*T, J) (jitter J - kT <= J for kT <= J)
    let len = s.from(1, 15);
    let mut cnt = 0u64;
    let mut k = 0u64;
    // jobs with k*T < J + len ; enough to scan k <= 7 when the count stays <= 8
    while k < 8 {
        let a = k * t;
        let r = if a > j { a } else { j };
        if r >= j && r < j + len {
            cnt += 1;
        }
        k += 1;
    }
    let bound = na(&sp, len);
    if bound <= 8 {
        assert!(cnt == bound);
    }
    // sub-additivity
    let a = s.bits(31);
    let b = s.bits(31);
    assert!(na(&sp, a + b) <= na(&sp, a) + na(&sp, b));
    cover!(bound >= 5 && bound <= 8 && j > t, "attained with jitter larger than the period");
});

harness!(c10_periodic_events, 7, |s| {
    let (p, t) = any_periodic(s, 7);
    let rel = any_sporadic_arrivals(s, 5, t, true, 0);
    let (start, len) = window(s, 63, 63);
    let cnt = rel.count_in(start, len);
    assert!(cnt <= na(&p, len));
    zero_and_monotone(&p, len);
    // attained by the window starting at the first arrival, sub-additive
    let c0 = rel.count_in(rel.t[0], len);
    if na(&p, len) <= 5 {
        assert!(c0 == na(&p, len));
    }
    let a = s.bits(31);
    let b = s.bits(31);
    assert!(na(&p, a + b) <= na(&p, a) + na(&p, b));
    cover!(cnt == 5, "window with 5 events");
});

// ---- Curve (delta-min prefix); the last entry must be positive (an all-zero
// prefix divides by zero: that input class is C12/C20's known finding)
macro_rules! curve_events {
    ($name:ident, $n:literal) => {
        harness!($name, 7, |s| {
            let d = any_dmin(s, $n, 3, 7);
            assume(d[$n - 1] >= 1);
            let c = mk_curve(&d, $n);
            let ev = any_dmin_events(s, 5, &d, $n, 7);
            let (start, len) = window(s, 31, 63);
            let cnt = ev.count_in(start, len);
            assert!(cnt <= na(&c, len));
            zero_and_monotone(&c, len);
            cover!(cnt == 5 && len > d[$n - 1], "5 events in a window longer than the prefix");
        });
    };
}
curve_events!(c10_curve1_events, 1);
curve_events!(c10_curve2_events, 2);
curve_events!(c10_curve3_events, 3);

// ---- Propagated / clone_with_jitter: every event of an admissible input
// sequence delayed by at most the added jitter
harness!(c10_propagated_sporadic, 7, |s| {
    let (sp, t, j) = any_sporadic(s, 7, 7);
    let extra = s.bits(7);
    let pr = Propagated::with_jitter(&sp, Duration::from(extra));
    let arr = any_sporadic_arrivals(s, 5, t, false, 3);
    let rel = arr.delayed(s, j, 7).delayed(s, extra, 7);
    let (start, len) = window(s, 63, 63);
    let cnt = rel.count_in(start, len);
    assert!(cnt <= na(&pr, len));
    zero_and_monotone(&pr, len);
    // clone_with_jitter of the sporadic model bounds the same sequences
    let cl = sp.clone_with_jitter(Duration::from(extra));
    assert!(cnt <= na(&cl, len));
    zero_and_monotone(&cl, len);
    // ... and of the propagated model with further jitter
    let extra2 = s.bits(3);
    let cl2 = pr.clone_with_jitter(Duration::from(extra2));
    let rel2 = rel.delayed(s, extra2, 3);
    assert!(rel2.count_in(start, len) <= na(&cl2, len));
    cover!(cnt >= 4 && extra >= 3, "4+ events, added jitter >= 3");
});

harness!(c10_propagated_curve, 7, |s| {
    let d = any_dmin(s, 2, 3, 7);
    assume(d[1] >= 1);
    let c = mk_curve(&d, 2);
    let extra = s.bits(7);
    let ev = any_dmin_events(s, 5, &d, 2, 7);
    let rel = ev.delayed(s, extra, 7);
    let (start, len) = window(s, 31, 31);
    let cnt = rel.count_in(start, len);
    let pr = Propagated::with_jitter(&c, Duration::from(extra));
    assert!(cnt <= na(&pr, len));
    let cl = c.clone_with_jitter(Duration::from(extra));
    assert!(cnt <= na(&cl, len));
    zero_and_monotone(&pr, len);
    zero_and_monotone(&cl, len);
    cover!(cnt >= 4 && extra >= 3, "4+ events, added jitter >= 3");
});

harness!(c10_periodic_clone_with_jitter, 7, |s| {
    let (p, t) = any_periodic(s, 7);
    let extra = s.bits(15);
    let cl = p.clone_with_jitter(Duration::from(extra));
    let arr = any_sporadic_arrivals(s, 5, t, true, 0);
    let rel = arr.delayed(s, extra, 15);
    let (start, len) = window(s, 63, 63);
    assert!(rel.count_in(start, len) <= na(&cl, len));
    zero_and_monotone(&cl, len);
    // Never stays Never
    let nv = Never {};
    assert!(na(&nv, len) == 0);
    assert!(na(&nv.clone_with_jitter(Duration::from(extra)), len) == 0);
    cover!(rel.count_in(start, len) == 5, "5 events");
});

// ---- jitter a then b == jitter a + b
harness!(c10_jitter_composition, 5, |s| {
    let (sp, _t, _j) = any_sporadic(s, 7, 7);
    let a = s.bits(7);
    let b = s.bits(7);
    let d = s.bits(63);
    let ab1 = sp.clone_with_jitter(Duration::from(a)).clone_with_jitter(Duration::from(b));
    let ab2 = sp.clone_with_jitter(Duration::from(a + b));
    assert!(na(&ab1, d) == na(&ab2, d));
    let (p, _) = any_periodic(s, 7);
    let p1 = p.clone_with_jitter(Duration::from(a)).clone_with_jitter(Duration::from(b));
    let p2 = p.clone_with_jitter(Duration::from(a + b));
    assert!(na(&p1, d) == na(&p2, d));
    let pr = Propagated::with_jitter(&sp, Duration::from(a));
    let q1 = pr.clone_with_jitter(Duration::from(b));
    let q2 = Propagated::with_jitter(&sp, Duration::from(a + b));
    assert!(na(&q1, d) == na(&q2, d));
    cover!(na(&ab1, d) >= 5 && a > 0 && b > 0, "5+ arrivals with both jitters positive");
});

harness!(c10_jitter_composition_curve, 5, |s| {
    let dm = any_dmin(s, 2, 3, 7);
    assume(dm[1] >= 1);
    let c = mk_curve(&dm, 2);
    let a = s.bits(7);
    let b = s.bits(7);
    let d = s.bits(31);
    let c1 = c.clone_with_jitter(Duration::from(a)).clone_with_jitter(Duration::from(b));
    let c2 = c.clone_with_jitter(Duration::from(a + b));
    assert!(na(&c1, d) == na(&c2, d));
    cover!(na(&c1, d) >= 4 && a > 0 && b > 0, "4+ arrivals with both jitters positive");
});

// ---- sums: slices, vectors, sum_of
harness!(c10_sums, 5, |s| {
    let (s1, _, _) = any_sporadic(s, 7, 7);
    let (s2, _, _) = any_sporadic(s, 7, 7);
    let d = s.bits(63);
    let want = na(&s1, d) + na(&s2, d);
    let arr = [s1, s2];
    assert!(na(&arr[..], d) == want);
    let mut v = Vec::with_capacity(4);
    v.push(s1);
    v.push(s2);
    assert!(na(&v, d) == want);
    let so = arrival::sum_of(s1, s2);
    assert!(na(&so, d) == want);
    // clone_with_jitter of a sum adds the jitter to every component
    let j = s.bits(7);
    let want_j = na(&s1.clone_with_jitter(Duration::from(j)), d) + na(&s2.clone_with_jitter(Duration::from(j)), d);
    assert!(na(&so.clone_with_jitter(Duration::from(j)), d) == want_j);
    assert!(na(&arr[..].clone_with_jitter(Duration::from(j)), d) == want_j);
    assert!(na(&v.clone_with_jitter(Duration::from(j)), d) == want_j);
    cover!(want >= 6, "6+ arrivals in total");
});

pub fn register(t: &mut Table) {
    reg!(t;
        c10_sporadic_events, c10_sporadic_attained_subadditive, c10_periodic_events,
        c10_curve1_events, c10_curve2_events, c10_curve3_events,
        c10_propagated_sporadic, c10_propagated_curve, c10_periodic_clone_with_jitter,
        c10_jitter_composition, c10_jitter_composition_curve, c10_sums,
    );
}
