use crate::Table;

pub mod calls;
pub mod sched;
pub mod selftest;
pub mod c01;
pub mod c02;
pub mod c03;
pub mod c04;
pub mod c05;
pub mod c06;
pub mod c07;
pub mod c08;
pub mod c09;
pub mod arr;
pub mod c10;
pub mod c11;
pub mod c12;
pub mod c13;
pub mod c14;
pub mod c16;
pub mod c17;
pub mod c18;
pub mod c19;
pub mod c20;

pub fn register(t: &mut Table) {
    selftest::register(t);
    c01::register(t);
    c02::register(t);
    c03::register(t);
    c04::register(t);
    c05::register(t);
    c06::register(t);
    c07::register(t);
    c08::register(t);
    c09::register(t);
    c10::register(t);
    c11::register(t);
    c12::register(t);
    c13::register(t);
    c14::register(t);
    c16::register(t);
    c17::register(t);
    c18::register(t);
    c19::register(t);
    c20::register(t);
}
