use crate::Table;

pub mod c09;

pub fn register(t: &mut Table) {
    c09::register(t);
}
