use crate::Table;

pub mod calls;
pub mod sched;
pub mod c01;
pub mod c06;
pub mod c08;
pub mod c09;

pub fn register(t: &mut Table) {
    c01::register(t);
    c06::register(t);
    c08::register(t);
    c09::register(t);
}
