//! C13 - curve extrapolation is conservative, only tightens, and is invisible as a cache.
use response_time_analysis::arrival::{Curve, ExtrapolatingCurve};
use response_time_analysis::time::Duration;

use super::arr::*;
use crate::sym::{assume, Src};
use crate::{cover, harness, reg, Table};

fn md(c: &Curve, n: usize) -> u64 {
    u64::from(c.min_distance(n))
}

/// symbolic super-additive 2-entry prefix: d0 in [0,3], d1 in [max(1, 2*d0), 2*d0 + 3]
fn any_prefix2(s: &mut Src) -> [u64; DM] {
    let d0 = s.bits(3);
    let d1 = 2 * d0 + s.bits(3);
    assume(d1 >= 1);
    [d0, d1, 0, 0]
}

/// A: queries within the extrapolated horizon; B: beyond it (known finding
/// c13-extrapolate-raises-beyond-horizon)
fn extrapolate_body(s: &mut Src, beyond: bool) {
    let d = any_prefix2(s);
    let orig = mk_curve(&d, 2);
    let mut ext = mk_curve(&d, 2);
    // horizon up to 3 beyond the prefix (with bursts, d0 = 0, the vector grows by one
    // time unit every other entry: more would need a larger unwind bound)
    let h = d[1] + s.bits(3);
    ext.extrapolate(Duration::from(h));
    // values inside the original prefix are unchanged
    assert!(md(&ext, 2) == d[0] && md(&ext, 3) == d[1]);
    let known = md(&ext, 1000); // largest known distance after extrapolation
    assert!(known >= h || known == d[1]);
    let q = s.bits(31);
    assume((q > known) == beyond);
    assert!(na(&ext, q) <= na(&orig, q));
    cover!(q >= 3 && q > d[1] && known > d[1], "query beyond the original prefix, inside the extrapolated one");
}
harness!(c13_extrapolate_within, 12, |s| { extrapolate_body(s, false); });
harness!(c13_extrapolate_beyond_b, 12, |s| { extrapolate_body(s, true); });

// every event sequence admissible for the original prefix stays within the extrapolated bound
harness!(c13_extrapolate_conservative, 12, |s| {
    let d = any_prefix2(s);
    let mut ext = mk_curve(&d, 2);
    let h = d[1] + s.bits(3);
    ext.extrapolate(Duration::from(h));
    let ev = any_dmin_events(s, 5, &d, 2, 7);
    let start = s.bits(31);
    let len = s.bits(31);
    assert!(ev.count_in(start, len) <= na(&ext, len));
    cover!(ev.count_in(start, len) == 5 && h >= d[1] + 2, "5 events in one window, extrapolated by 2+");
});

harness!(c13_extrapolate_steps, 12, |s| {
    let d = any_prefix2(s);
    let orig = mk_curve(&d, 2);
    let mut ext = mk_curve(&d, 2);
    let n = s.bits(7) as usize;
    ext.extrapolate_steps(n);
    assert!(md(&ext, 2) == d[0] && md(&ext, 3) == d[1]);
    let known = md(&ext, 1000);
    let q = s.bits(31);
    assume(q <= known);
    assert!(na(&ext, q) <= na(&orig, q));
    let ev = any_dmin_events(s, 5, &d, 2, 7);
    let start = s.bits(31);
    assert!(ev.count_in(start, q) <= na(&ext, q));
    cover!(n >= 5 && q >= 6, "extrapolated to 5+ entries");
});

harness!(c13_extrapolate_with_bound, 8, |s| {
    let d = any_prefix2(s);
    let orig = mk_curve(&d, 2);
    let mut ext = mk_curve(&d, 2);
    // a bound (delta, njobs) for the next entry (njobs = 4) or a non-matching one (ignored)
    let delta = s.from(1, 15);
    let njobs = s.from(3, 3) as usize;
    ext.extrapolate_with_bound((Duration::from(delta), njobs));
    assert!(md(&ext, 2) == d[0] && md(&ext, 3) == d[1]);
    let known = md(&ext, 1000);
    let q = s.bits(31);
    assume(q <= known);
    assert!(na(&ext, q) <= na(&orig, q));
    if njobs == 4 {
        // the new entry respects both the given bound and super-additivity
        assert!(md(&ext, 4) >= delta - 1);
        assert!(md(&ext, 4) >= d[0] + d[1]);
    } else {
        assert!(known == d[1]);
    }
    cover!(njobs == 4 && delta - 1 > d[0] + d[1], "given bound dominates the extrapolation");
});

// ---- ExtrapolatingCurve: a query answers like an eagerly extrapolated Curve.
// Only single-query instances are within reach: any second extrapolation of the
// shared `Rc<RefCell<Curve>>` (a history of one earlier query, concrete or
// symbolic, on the object or on a clone) makes the vector length symbolic and
// CBMC runs out of memory (> 23 GB for arguments <= 3), DESIGN.md section 8.
// The prefix is one of a few concrete shapes, the query argument symbolic.
fn single_query_body(s: &mut Src, d0: u64, d1: u64, via_clone: bool, xmask: u8) {
    single_query_body_n(s, [d0, d1, 0, 0], 2, via_clone, xmask)
}

fn single_query_body_n(s: &mut Src, d: [u64; DM], n: usize, via_clone: bool, xmask: u8) {
    let cached = ExtrapolatingCurve::new(mk_curve(&d, n));
    let x = s.bits(xmask);
    let got = if via_clone {
        // the clone shares the cache
        let c2 = cached.clone();
        na(&c2, x)
    } else {
        na(&cached, x)
    };
    let mut eager = mk_curve(&d, n);
    eager.extrapolate(Duration::from(x + 1));
    assert!(got == na(&eager, x));
    // (for a "concave" prefix such as [1,5,6] the extrapolated value is strictly smaller than
    // what whole-prefix repetition of the un-extrapolated vector would give)
    cover!(x as u8 == xmask && got >= 3, "query at the largest delta");
}
harness!(c13_cache_1_2, 12, |s| { single_query_body(s, 1, 2, false, 7); });
harness!(c13_cache_0_1, 12, |s| { single_query_body(s, 0, 1, false, 3); });
harness!(c13_cache_2_5, 12, |s| { single_query_body(s, 2, 5, false, 7); });
harness!(c13_cache_1_3_clone, 12, |s| { single_query_body(s, 1, 3, true, 7); });
harness!(c13_cache_1_5_6, 14, |s| { single_query_body_n(s, [1, 5, 6, 0], 3, false, 15); });

pub fn register(t: &mut Table) {
    reg!(t;
        c13_extrapolate_within, c13_extrapolate_beyond_b, c13_extrapolate_conservative,
        c13_extrapolate_steps, c13_extrapolate_with_bound,
        c13_cache_1_2, c13_cache_0_1, c13_cache_2_5, c13_cache_1_3_clone, c13_cache_1_5_6,
    );
}

