//! C12 - derived arrival curves dominate their source and are exact on the covered prefix.
use response_time_analysis::arrival::{self, ArrivalBound, ArrivalCurvePrefix, Curve};
use response_time_analysis::time::{Duration, Offset};

use super::arr::*;
use crate::models::curve::SymCurve;
use crate::sym::{assume, Src};
use crate::{cover, harness, reg, Table};

// ---- Curve::from_trace bounds the trace in every window of every length
fn from_trace_body(s: &mut Src, len: usize, prefix_jobs: usize) {
    // non-decreasing event times, simultaneous events allowed
    let mut ev = Events { t: [0; EV], n: len };
    let mut a = s.bits(3);
    let mut i = 0;
    while i < EV {
        if i < len {
            if i > 0 {
                a += s.bits(7);
            }
            ev.t[i] = a;
        }
        i += 1;
    }
    // the recorded prefix must not be all-zero (otherwise every query divides by
    // zero - that input class is the known finding c20-all-zero-delta-min):
    // the largest recorded distance spans k+1 events, k = min(prefix_jobs, len-1)
    let k = if prefix_jobs < len - 1 { prefix_jobs } else { len - 1 };
    let mut min_span = u64::MAX;
    let mut i = 0;
    while i < EV {
        if i + k < len {
            let span = ev.t[i + k] - ev.t[i];
            if span < min_span {
                min_span = span;
            }
        }
        i += 1;
    }
    assume(min_span >= 1);
    let c = Curve::from_trace(ev.t[..len].iter().map(|t| Offset::from(*t)), prefix_jobs);
    // every window: WLOG it starts at an event
    let wl = s.bits(63);
    let mut i = 0;
    while i < EV {
        if i < len {
            assert!(ev.count_in(ev.t[i], wl) <= na(&c, wl));
        }
        i += 1;
    }
    assert!(na(&c, 0) == 0);
    cover!(ev.count_in(ev.t[0], wl) == len as u64 && wl > min_span + 1, "window holding the whole trace, longer than the prefix");
}

macro_rules! from_trace {
    ($name:ident, $len:literal, $pj:literal) => {
        harness!($name, 8, |s| {
            from_trace_body(s, $len, $pj);
        });
    };
}
from_trace!(c12_from_trace_2_2, 2, 2);
from_trace!(c12_from_trace_3_2, 3, 2);
from_trace!(c12_from_trace_4_2, 4, 2);
from_trace!(c12_from_trace_4_3, 4, 3);
from_trace!(c12_from_trace_5_2, 5, 2);
from_trace!(c12_from_trace_5_4, 5, 4);

// ---- From<Periodic> for Curve
harness!(c12_from_periodic, 4, |s| {
    let (p, _t) = any_periodic(s, 15);
    let c = Curve::from(p);
    let d = s.bits(63);
    assert!(na(&c, d) == na(&p, d));
    cover!(na(&c, d) >= 9, "9+ arrivals");
});

// ---- delta_min_iter is the exact dual of number_arrivals
fn dmin_dual<A: ArrivalBound>(ab: &A, items: usize, scan: u64) {
    let mut it = arrival::delta_min_iter(ab);
    assert!(it.next() == Some((0, Duration::from(0))));
    assert!(it.next() == Some((1, Duration::from(0))));
    let mut k = 0;
    while k < items {
        if let Some((n, x)) = it.next() {
            let x = u64::from(x);
            // n >= 2 events fit into a window of length x + 1 but into no window of length x
            assert!(n == k + 2);
            assert!(na(ab, x + 1) >= n as u64);
            assert!(na(ab, x) < n as u64);
            assert!(x <= scan);
        }
        k += 1;
    }
}

harness!(c12_delta_min_sporadic, 10, |s| {
    let (sp, _t, _j) = any_sporadic(s, 3, 7);
    dmin_dual(&sp, 3, 63);
});

harness!(c12_delta_min_symcurve, 8, |s| {
    let c = SymCurve::any(s, 3, 3);
    // finitely many jobs: the iterator ends after the last one
    let mut it = arrival::delta_min_iter(&c);
    let _ = it.next();
    let _ = it.next();
    let a = it.next();
    let b = it.next();
    let e = it.next();
    assert!(a == Some((2, Duration::from(c.s[1] - 1))));
    assert!(b == Some((3, Duration::from(c.s[2] - 1))));
    assert!(e.is_none());
});

// ---- from_arrival_bound / from_arrival_bound_until: derived >= source, equal on the covered prefix
harness!(c12_from_arrival_bound_symcurve, 8, |s| {
    let src = SymCurve::any(s, 3, 3);
    // sources are realisable (the curve's own step sequence is an admissible trace,
    // hence the curve is sub-additive like every real arrival curve - the repetition
    // rule of the derived curves relies on it); the first up_to_njobs jobs must not all be
    // simultaneous (all-zero prefix: known finding c20-all-zero-delta-min)
    assume(src.realisable());
    assume(src.s[2] > 1);
    let c = Curve::from_arrival_bound(&src, 3);
    let d = s.bits(15);
    assert!(na(&c, d) >= na(&src, d));
    // covered prefix: up to the largest recorded minimum distance (3 jobs: s[2] - 1)
    if d <= src.s[2] - 1 {
        assert!(na(&c, d) == na(&src, d));
    }
    cover!(d > src.s[2] && na(&c, d) > na(&src, d), "beyond the prefix the derived curve is larger");
});

harness!(c12_from_arrival_bound_until_symcurve, 8, |s| {
    let src = SymCurve::any(s, 3, 3);
    assume(src.realisable());
    assume(src.s[2] > 1);
    let horizon = s.bits(7);
    let c = Curve::from_arrival_bound_until(&src, Duration::from(horizon));
    let d = s.bits(15);
    assert!(na(&c, d) >= na(&src, d));
    cover!(d > horizon && horizon >= 2, "query beyond the horizon");
});

harness!(c12_prefix_from_arrival_bound_until, 10, |s| {
    let src = SymCurve::any(s, 3, 3);
    assume(src.realisable());
    let horizon = s.from(1, 7);
    let p = ArrivalCurvePrefix::from_arrival_bound_until(&src, Duration::from(horizon));
    let d = s.bits(15);
    assert!(na(&p, d) >= na(&src, d));
    if d <= horizon {
        assert!(na(&p, d) == na(&src, d));
    }
    cover!(d > horizon && na(&p, d) > na(&src, d), "beyond the horizon the prefix over-approximates");
    cover!(d == horizon && horizon >= 5, "query exactly at the horizon");
});

// From<&ArrivalCurvePrefix> for Curve is out of reach: even for a concrete two-step prefix the
// query (DeltaMinIterator over the prefix's unbounded flat_map of horizon cycles, followed by
// extrapolate_with_bound) did not finish within 30 minutes (DESIGN.md section 8).

pub fn register(t: &mut Table) {
    reg!(t;
        c12_from_trace_2_2, c12_from_trace_3_2, c12_from_trace_4_2, c12_from_trace_4_3, c12_from_trace_5_2, c12_from_trace_5_4,
        c12_from_periodic, c12_delta_min_sporadic, c12_delta_min_symcurve,
        c12_from_arrival_bound_symcurve, c12_from_arrival_bound_until_symcurve,
        c12_prefix_from_arrival_bound_until,
    );
}
