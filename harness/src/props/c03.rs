//! C03 - the FIFO RTA is safe for every task and every legal schedule.
use super::calls::*;
use super::sched::*;
use crate::models::uniproc::*;
use crate::sym::assume;
use crate::{cover, harness, reg, rep, Table};

pub const Q: Shape = Shape {
    n_tua: 2, n_others: 1, n_oth: 2, inc_mask: 3, cost_mask: 1,
    limit_mask: 7, limit_max: 5, dl_mask: 0, b_mask: 0,
};
pub const T: Shape = Shape {
    n_tua: 3, n_others: 1, n_oth: 3, inc_mask: 3, cost_mask: 1,
    limit_mask: 7, limit_max: 8, dl_mask: 0, b_mask: 0,
};

fn fifo_cfg(wcet: u64) -> TaskCfg {
    // a FIFO job that is running was released no later than any pending job, so
    // preemption can only happen among jobs released at the same instant:
    // tick-wise symbolic choices among legal candidates cover every tie-breaking rule
    TaskCfg { present: true, wcet, deadline: 1, preempt: Preempt::Fully, np: 1, last_seg: 1, strict: false }
}

macro_rules! fifo_sched_harness {
    ($name:ident, $unwind:literal, $h:tt, $shape:expr, $first:literal, $gap:literal) => {
        harness!($name, $unwind, |s| {
            let sc = any_scenario(s, &$shape);
            let res = call_fifo(&sc);
            if let Ok(rd) = res {
                let r = u64::from(rd);
                let mut cfg = [absent(); NT];
                cfg[0] = fifo_cfg(sc.tua.cost);
                cfg[1] = fifo_cfg(sc.others.t[0].cost);
                let su = any_jobs(s, &sc, cfg, $first, $gap);
                let mut sched = Sched::new(Policy::Fifo, su.cfg, su.jobs, 0);
                assume(sched.last_release(0) + r <= $h && sched.last_release(1) + r <= $h);
                rep!($h, { sched.tick(s); });
                // every job of every task
                assert!(sched.all_within(0, r));
                assert!(sched.all_within(1, r));
                cover!(r >= 4 && (sched.max_response(0) == r || sched.max_response(1) == r), "some job attains R >= 4");
            }
        });
    };
}

fifo_sched_harness!(c03_fifo_q, 7, 12, Q, 1, 3);
/// the second task never arrives (a single task: busy windows of length 1 are possible)
pub const QS: Shape = Shape {
    n_tua: 2, n_others: 1, n_oth: 0, inc_mask: 3, cost_mask: 1,
    limit_mask: 7, limit_max: 5, dl_mask: 0, b_mask: 0,
};
fifo_sched_harness!(c03_fifo_single_q, 7, 12, QS, 1, 3);
fifo_sched_harness!(c03_fifo_t, 10, 18, T, 3, 3);

pub fn register(t: &mut Table) {
    reg!(t; c03_fifo_q, c03_fifo_single_q, c03_fifo_t);
}
