//! C17 - response-time bounds are monotone in workload and supply.
//!
//! Self-composition: one query contains two calls of the same real analysis, on a
//! base input and on a hardened twin (pointwise larger arrival curves - which
//! subsumes shorter periods and more jitter -, larger WCETs, blocking bounds and
//! segment lengths of the other tasks, an added interfering task, less supply).
use super::c06;
use super::c07::{any_escenario, any_workload, call_ecrts19, call_rr, SupKind, EQ, RQ};
use super::calls::*;
use crate::spec::ros2::Sup;
use crate::spec::uniproc::{Others, Tk};
use crate::sym::{assume, Src};
use crate::{cover, harness, reg, Table};
use response_time_analysis::fixed_point::SearchResult;
use response_time_analysis::supply::{Constrained, Dedicated, Periodic};
use response_time_analysis::time::{Duration, Service};

fn harder_tk(a: &Tk, b: &Tk) -> bool {
    b.curve.dominates(&a.curve) && b.cost >= a.cost && b.np >= a.np && b.dl == a.dl
}

/// `hard` is at least as hard as `base` (same deadlines, same last segment of the task under analysis)
fn harder(base: &Scenario, hard: &Scenario, allow_extra_task: bool) -> bool {
    let mut ok = harder_tk(&base.tua, &hard.tua) && hard.blocking >= base.blocking && hard.last_seg == base.last_seg && hard.limit == base.limit;
    let mut i = 0;
    while i < base.others.n {
        if !harder_tk(&base.others.t[i], &hard.others.t[i]) {
            ok = false;
        }
        i += 1;
    }
    if !allow_extra_task && hard.others.n != base.others.n {
        ok = false;
    }
    ok
}

fn monotone(base: SearchResult, hard: SearchResult) {
    // a hardened system never gets a smaller bound, and never turns an error into Ok
    if let Ok(vh) = hard {
        assert!(base.is_ok());
        if let Ok(vb) = base {
            assert!(vb <= vh);
        }
    }
}

/// hardened twin drawn independently with the same shape, constrained to dominate
fn twin(s: &mut Src, sh: &Shape, base: &Scenario) -> Scenario {
    let mut h = any_scenario(s, sh);
    // the last segment must fit the (possibly larger) WCET; keep it equal to the base's
    h.limit = base.limit;
    h.last_seg = base.last_seg;
    h.tua.dl = base.tua.dl;
    let mut i = 0;
    while i < base.others.n {
        h.others.t[i].dl = base.others.t[i].dl;
        i += 1;
    }
    assume(harder(base, &h, true));
    h
}

fn fp_mono(s: &mut Src, kind: Kind, sh: &Shape, sh_hard: &Shape) {
    let base = any_scenario(s, sh);
    let hard = twin(s, sh_hard, &base);
    let rb = call_fp(kind, &base);
    let rh = call_fp(kind, &hard);
    monotone(rb, rh);
    cover!(matches!((rb, rh), (Ok(a), Ok(b)) if a < b), "hardening strictly increases the bound");
    cover!(rb.is_ok() && rh.is_err(), "hardening makes the analysis diverge");
}

fn edf_mono(s: &mut Src, kind: Kind, sh: &Shape) {
    let base = any_scenario(s, sh);
    let hard = twin(s, sh, &base);
    let rb = call_edf(kind, &base);
    let rh = call_edf(kind, &hard);
    monotone(rb, rh);
    cover!(matches!((rb, rh), (Ok(a), Ok(b)) if a < b), "hardening strictly increases the bound");
}

fn fifo_mono(s: &mut Src, sh: &Shape) {
    let base = any_scenario(s, sh);
    let hard = twin(s, sh, &base);
    let rb = call_fifo(&base);
    let rh = call_fifo(&hard);
    monotone(rb, rh);
    cover!(matches!((rb, rh), (Ok(a), Ok(b)) if a < b), "hardening strictly increases the bound");
}

/// same shape but two other tasks: the second one is the added interfering task
pub const Q2: Shape = Shape { n_tua: 2, n_others: 2, n_oth: 2, inc_mask: 3, cost_mask: 1, limit_mask: 3, limit_max: 4, dl_mask: 3, b_mask: 1 };

harness!(c17_fp_p_q, 6, |s| { fp_mono(s, Kind::Preemptive, &c06::Q, &c06::Q); });
harness!(c17_fp_np_q, 6, |s| { fp_mono(s, Kind::NonPreemptive, &c06::Q, &c06::Q); });
harness!(c17_fp_lp_q, 6, |s| { fp_mono(s, Kind::Limited, &c06::Q, &c06::Q); });
harness!(c17_fp_fl_q, 6, |s| { fp_mono(s, Kind::Floating, &c06::Q, &c06::Q); });
harness!(c17_fp_np_added_task_q, 6, |s| { fp_mono(s, Kind::NonPreemptive, &c06::Q, &Q2); });
harness!(c17_fifo_q, 6, |s| { fifo_mono(s, &c06::Q); });
harness!(c17_fp_np_t, 8, |s| { fp_mono(s, Kind::NonPreemptive, &c06::T, &c06::T); });
harness!(c17_fp_lp_t, 8, |s| { fp_mono(s, Kind::Limited, &c06::T, &c06::T); });
harness!(c17_fifo_t, 8, |s| { fifo_mono(s, &c06::T); });
harness!(c17_edf_p_q, 5, |s| { edf_mono(s, Kind::Preemptive, &c06::QE); });
harness!(c17_edf_np_q, 5, |s| { edf_mono(s, Kind::NonPreemptive, &c06::QE); });
harness!(c17_edf_lp_q, 5, |s| { edf_mono(s, Kind::Limited, &c06::QE); });
harness!(c17_edf_fl_q, 5, |s| { edf_mono(s, Kind::Floating, &c06::QE); });

// ---- increasing the divergence limit never changes an Ok result
fn limit_fp(s: &mut Src, kind: Kind) {
    let base = any_scenario(s, &c06::Q);
    let mut more = base;
    more.limit = base.limit + s.bits(3);
    let a = call_fp(kind, &base);
    let b = call_fp(kind, &more);
    if a.is_ok() {
        assert!(a == b);
    }
    cover!(a.is_err() && b.is_ok(), "raising the limit turns an error into Ok");
}
harness!(c17_limit_fp_np_q, 8, |s| { limit_fp(s, Kind::NonPreemptive); });
harness!(c17_limit_fp_lp_q, 8, |s| { limit_fp(s, Kind::Limited); });
harness!(c17_limit_fifo_q, 8, |s| {
    let base = any_scenario(s, &c06::Q);
    let mut more = base;
    more.limit = base.limit + s.bits(3);
    let fa = call_fifo(&base);
    let fb = call_fifo(&more);
    if fa.is_ok() {
        assert!(fa == fb);
    }
    cover!(fa.is_err() && fb.is_ok(), "raising the limit turns an error into Ok");
});

// ---- ROS 2 analyses: harder demand, larger blocking, less supply
fn ros_mono(s: &mut Src, which: u8) {
    let base = any_escenario(s, SupKind::Periodic, &EQ);
    let mut hard = any_escenario(s, SupKind::Periodic, &EQ);
    hard.limit = base.limit;
    assume(hard.own.curve.dominates(&base.own.curve) && hard.own.cost >= base.own.cost);
    assume(hard.int.curve.dominates(&base.int.curve) && hard.int.cost >= base.int.cost);
    assume(hard.blocking >= base.blocking);
    // less supply in every window: same period, smaller budget
    match (base.sup, hard.sup) {
        (Sup::Periodic(qb, pb), Sup::Periodic(qh, ph)) => assume(pb == ph && qh <= qb),
        _ => assume(false),
    }
    let rb = call_ecrts19(which, &base);
    let rh = call_ecrts19(which, &hard);
    monotone(rb, rh);
    cover!(matches!((rb, rh), (Ok(a), Ok(b)) if a < b), "hardening strictly increases the bound");
}
harness!(c17_ros_event_source_q, 8, |s| { ros_mono(s, 0); });
harness!(c17_ros_timer_q, 8, |s| { ros_mono(s, 1); });
harness!(c17_ros_pp_q, 8, |s| { ros_mono(s, 2); });
harness!(c17_ros_chain_q, 8, |s| { ros_mono(s, 3); });

harness!(c17_ros_rr_q, 9, |s| {
    let base = any_workload(s, &RQ);
    let mut hard = any_workload(s, &RQ);
    let limit = s.from(1, 7);
    assume(limit <= 6);
    let mut i = 0;
    while i < 2 {
        hard.cb[i].kind = base.cb[i].kind;
        assume(hard.cb[i].src.curve.dominates(&base.cb[i].src.curve));
        assume(hard.cb[i].src.cost >= base.cb[i].src.cost);
        // assumed response-time bounds act as jitter: larger is harder
        assume(hard.cb[i].r >= base.cb[i].r);
        i += 1;
    }
    let p = s.from(1, 1);
    let qb = s.from(1, 1);
    let qh = s.from(1, 1);
    assume(qh <= qb && qb <= p);
    let rb = call_rr(&Periodic::new(Service::from(qb), Duration::from(p)), &base, &[1], limit);
    let rh = call_rr(&Periodic::new(Service::from(qh), Duration::from(p)), &hard, &[1], limit);
    monotone(rb, rh);
    cover!(matches!((rb, rh), (Ok(a), Ok(b)) if a < b), "hardening strictly increases the bound");
});

pub fn register(t: &mut Table) {
    reg!(t;
        c17_fp_p_q, c17_fp_np_q, c17_fp_lp_q, c17_fp_fl_q, c17_fp_np_added_task_q, c17_fifo_q,
        c17_fp_np_t, c17_fp_lp_t, c17_fifo_t,
        c17_edf_p_q, c17_edf_np_q, c17_edf_lp_q, c17_edf_fl_q,
        c17_limit_fp_np_q, c17_limit_fp_lp_q, c17_limit_fifo_q,
        c17_ros_event_source_q, c17_ros_timer_q, c17_ros_pp_q, c17_ros_chain_q, c17_ros_rr_q,
    );
}

#[allow(dead_code)]
fn _unused(_: &Others) {
    let _ = (Dedicated::new(), Constrained::new(Service::from(1), Duration::from(1), Duration::from(1)));
}
