//! C18 - fully preemptive FP, non-preemptive FP and FIFO bounds are attained.
//!
//! The existential ("there is a schedule") is Skolemised by the critical
//! instant: every task releases at its maximal rate from t = 0 (the curve's own
//! step sequence, assumed realisable), every job runs for its WCET, the other
//! task wins ties, and for NP-FP a lower-priority region of length B+1 started
//! at t = -1.  The deterministic simulation must attain exactly the bound.
use super::calls::*;
use super::sched::*;
use crate::models::curve::{SymCurve, MAXN};
use crate::models::uniproc::*;
use crate::sym::assume;
use crate::{cover, harness, reg, rep, Table};

pub const Q: Shape = Shape {
    n_tua: 2, n_others: 1, n_oth: 2, inc_mask: 3, cost_mask: 1,
    limit_mask: 3, limit_max: 4, dl_mask: 0, b_mask: 1,
};
pub const T: Shape = Shape {
    n_tua: 3, n_others: 1, n_oth: 3, inc_mask: 3, cost_mask: 1,
    limit_mask: 7, limit_max: 6, dl_mask: 0, b_mask: 3,
};

/// maximal-rate release pattern of a realisable curve, all costs = WCET
pub fn critical_jobs(c: &SymCurve, wcet: u64) -> Jobs {
    let mut j = Jobs::none();
    let mut i = 0;
    while i < MAXN {
        if i < c.n {
            j.rel[i] = c.s[i] - 1;
            j.cost[i] = wcet;
        }
        i += 1;
    }
    j.m = c.n;
    j
}

macro_rules! tight_harness {
    ($name:ident, $unwind:literal, $h:tt, $which:expr, $shape:expr) => {
        harness!($name, $unwind, |s| {
            // 0 = FP preemptive, 1 = FP non-preemptive, 2 = FIFO
            let which: u8 = $which;
            let sc = any_scenario(s, &$shape);
            assume(sc.tua.curve.realisable() && sc.others.t[0].curve.realisable());
            let res = match which {
                0 => call_fp(Kind::Preemptive, &sc),
                1 => call_fp(Kind::NonPreemptive, &sc),
                _ => call_fifo(&sc),
            };
            if let Ok(rd) = res {
                let r = u64::from(rd);
                let pre = if which == 1 { Preempt::Never } else { Preempt::Fully };
                let mut cfg = [absent(); NT];
                cfg[0] = TaskCfg { present: true, wcet: sc.tua.cost, deadline: 1, preempt: pre, np: 1, last_seg: 1, strict: false };
                // the other task wins ties (FP: strictly higher priority)
                cfg[1] = TaskCfg { present: true, wcet: sc.others.t[0].cost, deadline: 1, preempt: pre, np: 1, last_seg: 1, strict: true };
                let mut jobs = [Jobs::none(); NT];
                jobs[0] = critical_jobs(&sc.tua.curve, sc.tua.cost);
                jobs[1] = critical_jobs(&sc.others.t[0].curve, sc.others.t[0].cost);
                let b = if which == 1 { sc.blocking } else { 0 };
                let policy = if which == 2 { Policy::Fifo } else { Policy::Fp };
                let mut sched = Sched::new(policy, cfg, jobs, b);
                if b > 0 {
                    // lower-priority region of length B+1 that started at t = -1
                    sched.lock_owner = NT;
                    sched.lock_left = b;
                }
                rep!($h, { sched.tick(s); });
                let worst = if which == 2 {
                    let a = sched.max_response(0);
                    let c = sched.max_response(1);
                    if a > c { a } else { c }
                } else {
                    sched.max_response(0)
                };
                // all jobs finished inside the horizon, and the bound is attained exactly
                assert!(sched.all_within(0, r));
                assert!(worst == r);
                cover!(r >= 4, "tight bound R >= 4");
            }
        });
    };
}

tight_harness!(c18_fp_p_q, 6, 12, 0, Q);
tight_harness!(c18_fp_np_q, 6, 12, 1, Q);
tight_harness!(c18_fifo_q, 6, 12, 2, Q);
tight_harness!(c18_fp_p_t, 8, 18, 0, T);
tight_harness!(c18_fp_np_t, 8, 18, 1, T);
tight_harness!(c18_fifo_t, 8, 18, 2, T);

pub fn register(t: &mut Table) {
    reg!(t; c18_fp_p_q, c18_fp_np_q, c18_fifo_q, c18_fp_p_t, c18_fp_np_t, c18_fifo_t);
}
