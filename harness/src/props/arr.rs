//! Helpers shared by the arrival-model harnesses (C10-C13).
use response_time_analysis::arrival::{ArrivalBound, Curve, Periodic, Sporadic};
use response_time_analysis::time::Duration;

use crate::sym::{assume, Src};

pub fn na<A: ArrivalBound + ?Sized>(ab: &A, d: u64) -> u64 {
    ab.number_arrivals(Duration::from(d)) as u64
}

pub fn any_sporadic(s: &mut Src, tmask: u8, jmask: u8) -> (Sporadic, u64, u64) {
    let t = s.from(1, tmask);
    let j = s.bits(jmask);
    (Sporadic::new(Duration::from(t), Duration::from(j)), t, j)
}

pub fn any_periodic(s: &mut Src, tmask: u8) -> (Periodic, u64) {
    let t = s.from(1, tmask);
    (Periodic::new(Duration::from(t)), t)
}

pub const DM: usize = 4;

/// symbolic non-decreasing delta-min prefix with `n` entries (n concrete),
/// first entry in [0, first_mask], increments in [0, inc_mask]
pub fn any_dmin(s: &mut Src, n: usize, first_mask: u8, inc_mask: u8) -> [u64; DM] {
    let mut d = [0u64; DM];
    let mut v = s.bits(first_mask);
    let mut i = 0;
    while i < DM {
        if i < n {
            if i > 0 {
                v += s.bits(inc_mask);
            }
            d[i] = v;
        }
        i += 1;
    }
    d
}

/// the vector handed to Curve::new is pre-sized so that later pushes never reallocate
pub fn mk_curve(d: &[u64; DM], n: usize) -> Curve {
    let mut v: Vec<Duration> = Vec::with_capacity(16);
    let mut i = 0;
    while i < DM {
        if i < n {
            v.push(Duration::from(d[i]));
        }
        i += 1;
    }
    Curve::new(v)
}

pub const EV: usize = 5;

/// `n` event times (release instants), each one a base instant plus a delay
#[derive(Clone, Copy)]
pub struct Events {
    pub t: [u64; EV],
    pub n: usize,
}

impl Events {
    /// number of events in the window [start, start + len)
    pub fn count_in(&self, start: u64, len: u64) -> u64 {
        let mut c = 0;
        let mut i = 0;
        while i < EV {
            if i < self.n && self.t[i] >= start && self.t[i] < start + len {
                c += 1;
            }
            i += 1;
        }
        c
    }

    /// delay every event by a symbolic amount in [0, jitter]
    pub fn delayed(&self, s: &mut Src, jitter: u64, mask: u8) -> Events {
        let mut e = *self;
        let mut i = 0;
        while i < EV {
            if i < self.n {
                let x = s.bits(mask);
                e.t[i] = self.t[i] + if x > jitter { jitter } else { x };
            }
            i += 1;
        }
        e
    }
}

/// arrival instants with separation >= t (== t if `exact`), first at [0, 3]
pub fn any_sporadic_arrivals(s: &mut Src, n: usize, t: u64, exact: bool, extra_mask: u8) -> Events {
    let mut e = Events { t: [0; EV], n };
    let mut a = s.bits(3);
    let mut i = 0;
    while i < EV {
        if i < n {
            if i > 0 {
                a += t;
                if !exact {
                    a += s.bits(extra_mask);
                }
            }
            e.t[i] = a;
        }
        i += 1;
    }
    e
}

/// event sequence respecting a delta-min prefix: sorted, and any k+1
/// consecutive events (k <= len) span at least dmin[k-1]
pub fn any_dmin_events(s: &mut Src, n: usize, d: &[u64; DM], len: usize, gap_mask: u8) -> Events {
    let mut e = Events { t: [0; EV], n };
    let mut a = s.bits(3);
    let mut i = 0;
    while i < EV {
        if i < n {
            if i > 0 {
                a += s.bits(gap_mask);
            }
            e.t[i] = a;
        }
        i += 1;
    }
    let mut ok = true;
    let mut i = 0;
    while i < EV {
        let mut k = 1;
        while k <= DM {
            if k <= len && i + k < n {
                if e.t[i + k] - e.t[i] < d[k - 1] {
                    ok = false;
                }
            }
            k += 1;
        }
        i += 1;
    }
    assume(ok);
    e
}
