//! C05 - the RTSS'21 round-robin (rr) and busy-window (bw) analyses are safe.
//!
//! Every callback carries an assumed bound R_i; the harness *assumes* that the
//! analysis, applied to each callback as a singleton subchain, returns exactly
//! Ok(R_i) (self-consistency), then runs the executor model and asserts that no
//! instance of any callback exceeds its bound.  Every self-consistent vector in
//! range is covered - a superset of the least one reached by iteration.
use super::c04::{any_inst, slots_for, XShape};
use super::c07::{any_sup, call_bw, call_rr, with_supply, RShape, SupKind};
use crate::models::curve::SymCurve;
use crate::models::executor::*;
use crate::spec::ros2::{Cb, Kind, Src1, Sup, Workload, MAXCB};
use crate::sym::{assume, Src};
use crate::{cover, harness, reg, rep, Table};
use response_time_analysis::supply::{Constrained, Dedicated, Periodic};
use response_time_analysis::time::{Duration, Service};

/// Timer, polled with unknown priority, or polled with known priority
fn any_kind3(s: &mut Src) -> Kind {
    let k = s.bits(3);
    let p = s.bits(1) as i32;
    match k {
        0 => Kind::Timer,
        1 => Kind::PolledUnknown,
        _ => Kind::Polled(p),
    }
}

fn any_workload2(s: &mut Src, sh: &RShape) -> Workload {
    let dummy = Cb { src: Src1 { curve: SymCurve::concrete(&[1]), cost: 1 }, kind: Kind::Timer, r: 1 };
    let mut cb = [dummy; MAXCB];
    let mut i = 0;
    while i < 2 {
        cb[i] = Cb {
            src: super::c07::any_src1(s, sh.nsteps, sh.inc_mask, sh.cost_mask),
            kind: any_kind3(s),
            r: s.from(1, sh.r_mask),
        };
        i += 1;
    }
    Workload { cb, n: 2 }
}

/// executor configuration consistent with the callback kinds: timers are ranked by
/// index, polled callbacks by their known priority, otherwise symbolically
fn exec_cfg(s: &mut Src, w: &Workload) -> [CbCfg; NCB] {
    let flip = s.flag();
    let mut cfg = [super::c04::absent_cb(); NCB];
    let (k0, k1) = (w.cb[0].kind, w.cb[1].kind);
    let zero_first = match (k0, k1) {
        (Kind::Polled(a), Kind::Polled(b)) => {
            // distinct known priorities
            assume(a != b);
            a < b
        }
        _ => !flip,
    };
    cfg[0] = CbCfg { present: true, is_timer: k0 == Kind::Timer, rank: if zero_first { 0 } else { 1 }, wcet: w.cb[0].src.cost, next: NOBODY };
    cfg[1] = CbCfg { present: true, is_timer: k1 == Kind::Timer, rank: if zero_first { 1 } else { 0 }, wcet: w.cb[1].src.cost, next: NOBODY };
    cfg
}

fn setup<const BW: bool>(s: &mut Src, sk: SupKind, sh: &RShape, xs: &XShape, limit: u64) -> (Exec, Slots, Workload) {
    let sup = any_sup(s, sk, sh.pmask);
    let w = any_workload2(s, sh);
    // self-consistency: the singleton analysis of each callback reproduces its bound
    let r0 = with_supply!(sup, |x| if BW { call_bw(&x, &w, &[0], limit) } else { call_rr(&x, &w, &[0], limit) });
    assume(r0 == Ok(Duration::from(w.cb[0].r)));
    let r1 = with_supply!(sup, |x| if BW { call_bw(&x, &w, &[1], limit) } else { call_rr(&x, &w, &[1], limit) });
    assume(r1 == Ok(Duration::from(w.cb[1].r)));
    let cfg = exec_cfg(s, &w);
    let mut inst = [Inst::none(); NCB];
    inst[0] = any_inst(s, &w.cb[0].src, xs);
    inst[1] = any_inst(s, &w.cb[1].src, xs);
    let slots = slots_for(s, &sup);
    (Exec::new(cfg, inst), slots, w)
}

macro_rules! rr_exec_harness {
    ($name:ident, $unwind:literal, $h:tt, $bw:literal, $sk:expr, $rshape:expr, $xshape:expr, $limit:literal) => {
        harness!($name, $unwind, |s| {
            let (mut ex, slots, w) = setup::<$bw>(s, $sk, &$rshape, &$xshape, $limit);
            assume(ex.last_arrival(0) + w.cb[0].r <= $h && ex.last_arrival(1) + w.cb[1].r <= $h);
            let mut ti = 0usize;
            rep!($h, {
                ex.tick(s, slots.s[ti]);
                ti += 1;
            });
            assert!(ex.all_within(0, w.cb[0].r));
            assert!(ex.all_within(1, w.cb[1].r));
            cover!(w.cb[0].r >= 3 && ex.max_response(0) >= 3, "bound >= 3 and an instance with response >= 3");
            cover!(ex.polling_points >= 2, "two polling points");
        });
    };
}

pub const R5Q: RShape = RShape { ncb: 2, nsteps: 2, inc_mask: 7, cost_mask: 1, r_mask: 7, limit_mask: 0, limit_max: 8, pmask: 1 };
pub const R5T: RShape = RShape { ncb: 2, nsteps: 3, inc_mask: 3, cost_mask: 1, r_mask: 15, limit_mask: 0, limit_max: 16, pmask: 1 };
pub const X5Q: XShape = XShape { nsteps: 2, inc_mask: 3, cost_mask: 1, limit_mask: 0, limit_max: 0, pmask: 1, first_mask: 1, gap_mask: 3 };
pub const X5T: XShape = XShape { nsteps: 3, inc_mask: 3, cost_mask: 1, limit_mask: 0, limit_max: 0, pmask: 1, first_mask: 1, gap_mask: 3 };

rr_exec_harness!(c05_rr_dedicated_q, 10, 12, false, SupKind::Dedicated, R5Q, X5Q, 8);
rr_exec_harness!(c05_rr_periodic_q, 10, 14, false, SupKind::Periodic, R5Q, X5Q, 8);
rr_exec_harness!(c05_rr_dedicated_t, 18, 16, false, SupKind::Dedicated, R5T, X5T, 16);
rr_exec_harness!(c05_rr_periodic_t, 18, 16, false, SupKind::Periodic, R5T, X5T, 16);
// bw: one call costs ~15 min / 18 GB; two calls per query
pub const B5: RShape = RShape { ncb: 2, nsteps: 2, inc_mask: 3, cost_mask: 1, r_mask: 3, limit_mask: 0, limit_max: 4, pmask: 1 };
rr_exec_harness!(c05_bw_dedicated_t, 6, 10, true, SupKind::Dedicated, B5, X5Q, 4);

pub fn register(t: &mut Table) {
    reg!(t; c05_rr_dedicated_q, c05_rr_periodic_q, c05_rr_dedicated_t, c05_rr_periodic_t, c05_bw_dedicated_t);
}
