//! C09 - supply-bound functions are exact and service_time is their exact inverse.
use response_time_analysis::supply::{Constrained, Dedicated, Periodic, SupplyBound};
use response_time_analysis::time::{Duration, Service};

use crate::sym::{assume, Src};
use crate::{cover, harness, reg, Table};

fn sbf<S: SupplyBound + ?Sized>(s: &S, d: u64) -> u64 {
    u64::from(s.provided_service(Duration::from(d)))
}
fn st<S: SupplyBound + ?Sized>(s: &S, d: u64) -> u64 {
    u64::from(s.service_time(Service::from(d)))
}

/// forwards only `provided_service`, so `service_time` is the trait default
struct DefaultOnly<'a, S: SupplyBound>(&'a S);
impl<'a, S: SupplyBound> SupplyBound for DefaultOnly<'a, S> {
    fn provided_service(&self, delta: Duration) -> Service {
        self.0.provided_service(delta)
    }
}

fn any_periodic(s: &mut Src, pmask: u8) -> (Periodic, u64, u64) {
    let p = s.from(1, pmask);
    let q = s.from(1, pmask);
    assume(q <= p);
    (Periodic::new(Service::from(q), Duration::from(p)), q, p)
}

fn any_constrained(s: &mut Src, pmask: u8) -> (Constrained, u64, u64, u64) {
    let p = s.from(1, pmask);
    let d = s.from(1, pmask);
    let q = s.from(1, pmask);
    assume(q <= d && d <= p);
    (
        Constrained::new(Service::from(q), Duration::from(d), Duration::from(p)),
        q,
        d,
        p,
    )
}

/// (a) shape facts at a symbolic delta
fn shape_facts<S: SupplyBound>(sup: &S, delta: u64) {
    assert!(sbf(sup, 0) == 0);
    let a = sbf(sup, delta);
    let b = sbf(sup, delta + 1);
    assert!(a <= b);
    assert!(b <= a + 1);
    assert!(a <= delta);
}

/// (b) service_time is the least t with sbf(t) >= d (given monotonicity, checked in (a))
fn inverse_facts<S: SupplyBound>(sup: &S, d: u64) {
    let t = st(sup, d);
    assert!(sbf(sup, t) >= d);
    if t > 0 {
        assert!(sbf(sup, t - 1) < d);
    }
    if d == 0 {
        assert!(t == 0);
    }
    cover!(t >= 9, "service_time >= 9");
}

harness!(c09_periodic_shape, 3, |s| {
    let (sup, _q, _p) = any_periodic(s, 7);
    let delta = s.bits(63);
    shape_facts(&sup, delta);
    cover!(sbf(&sup, delta) >= 3 && sbf(&sup, delta) < delta, "periodic sbf in (3, delta)");
});

harness!(c09_constrained_shape, 3, |s| {
    let (sup, _q, _d, _p) = any_constrained(s, 7);
    let delta = s.bits(63);
    shape_facts(&sup, delta);
    cover!(sbf(&sup, delta) >= 3 && sbf(&sup, delta) < delta, "constrained sbf in (3, delta)");
});

harness!(c09_dedicated, 3, |s| {
    let sup = Dedicated::new();
    let delta = s.bits(63);
    shape_facts(&sup, delta);
    assert!(sbf(&sup, delta) == delta);
    assert!(st(&sup, delta) == delta);
    // default inverse on the dedicated processor
    let w = DefaultOnly(&sup);
    assert!(st(&w, delta) == delta);
    cover!(delta == 63, "delta = 63");
});

harness!(c09_periodic_inverse, 3, |s| {
    let (sup, _q, _p) = any_periodic(s, 7);
    let d = s.bits(31);
    inverse_facts(&sup, d);
});

harness!(c09_constrained_inverse, 3, |s| {
    let (sup, _q, _d, _p) = any_constrained(s, 7);
    let d = s.bits(31);
    inverse_facts(&sup, d);
});

// default service_time: the jump-ahead loop runs at most ~ (blackouts) iterations;
// bound: P <= 4, d <= 7 -> the unwinding assertion decides whether 12 suffices.
harness!(c09_periodic_default_inverse, 14, |s| {
    let (sup, _q, _p) = any_periodic(s, 3);
    let d = s.bits(7);
    let w = DefaultOnly(&sup);
    inverse_facts(&w, d);
    assert!(st(&w, d) == st(&sup, d));
});

harness!(c09_constrained_default_inverse, 14, |s| {
    let (sup, _q, _d, _p) = any_constrained(s, 3);
    let d = s.bits(7);
    let w = DefaultOnly(&sup);
    inverse_facts(&w, d);
    assert!(st(&w, d) == st(&sup, d));
});

// (d) equivalences
harness!(c09_constrained_eq_periodic, 3, |s| {
    let (per, q, p) = any_periodic(s, 7);
    let con = Constrained::new(Service::from(q), Duration::from(p), Duration::from(p));
    let x = s.bits(63);
    assert!(sbf(&per, x) == sbf(&con, x));
    assert!(st(&per, x) == st(&con, x));
    cover!(sbf(&per, x) >= 5 && q < p, "nontrivial periodic value");
});

harness!(c09_full_budget_eq_dedicated, 3, |s| {
    let p = s.from(1, 7);
    let per = Periodic::new(Service::from(p), Duration::from(p));
    let con = Constrained::new(Service::from(p), Duration::from(p), Duration::from(p));
    let x = s.bits(63);
    assert!(sbf(&per, x) == x);
    assert!(st(&per, x) == x);
    assert!(sbf(&con, x) == x);
    assert!(st(&con, x) == x);
    cover!(x >= 40 && p >= 5, "x >= 40");
});

// (c) exactness against the reservation model of DESIGN.md 4.3
const SLOTS: usize = 16;

fn any_slots(s: &mut Src) -> [u64; SLOTS] {
    let lo = s.u8();
    let hi = s.u8();
    let mut a = [0u64; SLOTS];
    let mut i = 0;
    while i < 8 {
        a[i] = ((lo >> i) & 1) as u64;
        a[i + 8] = ((hi >> i) & 1) as u64;
        i += 1;
    }
    a
}

/// number of whole periods inside the slot array
fn whole_periods(p: u64) -> u64 {
    SLOTS as u64 / p
}

/// every period [kP, kP+P) inside the array has >= q supplied slots within [kP, kP+d)
fn placement_ok(slots: &[u64; SLOTS], q: u64, d: u64, p: u64) -> bool {
    let n = whole_periods(p);
    let mut cnt = [0u64; SLOTS];
    let mut t = 0usize;
    while t < SLOTS {
        let tt = t as u64;
        let k = tt / p;
        let off = tt % p;
        if k < n && off < d {
            // index-free accumulate into cnt[k]
            let mut j = 0usize;
            while j < SLOTS {
                if j as u64 == k {
                    cnt[j] += slots[t];
                }
                j += 1;
            }
        }
        t += 1;
    }
    let mut ok = true;
    let mut k = 0usize;
    while k < SLOTS {
        if (k as u64) < n && cnt[k] < q {
            ok = false;
        }
        k += 1;
    }
    ok
}

fn supplied_in(slots: &[u64; SLOTS], a: u64, len: u64) -> u64 {
    let mut c = 0;
    let mut t = 0usize;
    while t < SLOTS {
        let tt = t as u64;
        if a <= tt && tt < a + len {
            c += slots[t];
        }
        t += 1;
    }
    c
}

harness!(c09_periodic_lower_bound_all_placements, 18, |s| {
    let (sup, q, p) = any_periodic(s, 3);
    let slots = any_slots(s);
    assume(placement_ok(&slots, q, p, p));
    let a = s.bits(15);
    let len = s.bits(15);
    assume(a + len <= whole_periods(p) * p);
    let got = supplied_in(&slots, a, len);
    assert!(got >= sbf(&sup, len));
    cover!(got == sbf(&sup, len) && len >= 6 && q < p, "bound attained for len >= 6");
});

harness!(c09_constrained_lower_bound_all_placements, 18, |s| {
    let (sup, q, d, p) = any_constrained(s, 3);
    let slots = any_slots(s);
    assume(placement_ok(&slots, q, d, p));
    let a = s.bits(15);
    let len = s.bits(15);
    assume(a + len <= whole_periods(p) * p);
    let got = supplied_in(&slots, a, len);
    assert!(got >= sbf(&sup, len));
    cover!(got == sbf(&sup, len) && len >= 6 && d < p, "bound attained for len >= 6");
});

/// canonical worst placement: budget first in period 0, last before the deadline afterwards
fn worst_placement(q: u64, d: u64, p: u64) -> [u64; SLOTS] {
    let mut a = [0u64; SLOTS];
    let mut t = 0usize;
    while t < SLOTS {
        let tt = t as u64;
        let k = tt / p;
        let off = tt % p;
        a[t] = if k == 0 {
            (off < q) as u64
        } else {
            (off >= d - q && off < d) as u64
        };
        t += 1;
    }
    a
}

harness!(c09_constrained_attained_by_witness, 18, |s| {
    let (sup, q, d, p) = any_constrained(s, 3);
    let slots = worst_placement(q, d, p);
    assert!(placement_ok(&slots, q, d, p));
    let len = s.bits(15);
    assume(q + len <= whole_periods(p) * p);
    assert!(supplied_in(&slots, q, len) == sbf(&sup, len));
    cover!(len >= 8 && sbf(&sup, len) >= 2, "len >= 8");
});

harness!(c09_periodic_attained_by_witness, 18, |s| {
    let (sup, q, p) = any_periodic(s, 3);
    let slots = worst_placement(q, p, p);
    assert!(placement_ok(&slots, q, p, p));
    let len = s.bits(15);
    assume(q + len <= whole_periods(p) * p);
    assert!(supplied_in(&slots, q, len) == sbf(&sup, len));
    cover!(len >= 8 && sbf(&sup, len) >= 2, "len >= 8");
});

pub fn register(t: &mut Table) {
    reg!(t;
        c09_periodic_shape, c09_constrained_shape, c09_dedicated,
        c09_periodic_inverse, c09_constrained_inverse,
        c09_periodic_default_inverse, c09_constrained_default_inverse,
        c09_constrained_eq_periodic, c09_full_budget_eq_dedicated,
        c09_periodic_lower_bound_all_placements, c09_constrained_lower_bound_all_placements,
        c09_constrained_attained_by_witness, c09_periodic_attained_by_witness,
    );
}
