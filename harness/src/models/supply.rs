//! `SymSupply`: table SBF with increments in {0,1}, dedicated beyond the
//! table; exercises the trait's default `service_time`.
use response_time_analysis::supply::SupplyBound;
use response_time_analysis::time::{Duration, Service};

use crate::sym::Src;

pub const SUP_LEN: usize = 8;

#[derive(Clone, Copy, Debug)]
pub struct SymSupply {
    /// sbf(i+1) for i in 0..SUP_LEN ; sbf(0) = 0
    pub tab: [u64; SUP_LEN],
}

impl SymSupply {
    pub fn any(src: &mut Src) -> SymSupply {
        let mut tab = [0u64; SUP_LEN];
        let mut v = 0u64;
        let mut i = 0;
        while i < SUP_LEN {
            v += src.bits(1);
            tab[i] = v;
            i += 1;
        }
        SymSupply { tab }
    }

    #[inline(always)]
    pub fn sbf(&self, delta: u64) -> u64 {
        if delta == 0 {
            0
        } else if delta as usize <= SUP_LEN {
            // index-free lookup
            let mut v = 0;
            let mut i = 0;
            while i < SUP_LEN {
                if (i as u64) + 1 == delta {
                    v = self.tab[i];
                }
                i += 1;
            }
            v
        } else {
            self.tab[SUP_LEN - 1] + (delta - SUP_LEN as u64)
        }
    }

    pub fn dominated_by(&self, other: &SymSupply) -> bool {
        let mut ok = true;
        let mut i = 0;
        while i < SUP_LEN {
            if self.tab[i] > other.tab[i] {
                ok = false;
            }
            i += 1;
        }
        ok
    }
}

impl SupplyBound for SymSupply {
    fn provided_service(&self, delta: Duration) -> Service {
        Service::from(self.sbf(u64::from(delta)))
    }
    // service_time: the trait's default implementation (real code)
}
