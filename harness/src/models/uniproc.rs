//! Dedicated unit-speed uniprocessor in discrete time (DESIGN.md 4.2), written
//! from the scheduling-model definitions, not from the analyses.
//!
//! Tasks: index 0 is the task under analysis, 1..=2 the other tasks; for the
//! fixed-priority policies an abstract lower-priority *blocker* occupies the
//! processor for non-preemptive regions of symbolic length <= B+1 whenever no
//! task is pending at a decision point.  Jobs of one task run in release
//! order.  One `tick` simulates the time slot [t, t+1); the harness expands
//! `tick` H times textually (no loop over time, DESIGN.md 2.1 item 10).

use crate::models::curve::{Releases, SymCurve, MAXN};
use crate::sym::{assume, Src};

pub const NT: usize = 3; // tua + up to 2 others

#[derive(Clone, Copy, PartialEq, Eq, Debug)]
pub enum Policy {
    /// fixed priority: others are higher-or-equal priority (`strict[i]`: strictly higher)
    Fp,
    /// earliest absolute deadline first, arbitrary tie-breaking
    Edf,
    /// first-in first-out by release time, arbitrary tie-breaking
    Fifo,
}

/// how jobs of one task may be preempted
#[derive(Clone, Copy, PartialEq, Eq, Debug)]
pub enum Preempt {
    /// a decision is taken at every tick
    Fully,
    /// run-to-completion
    Never,
    /// non-preemptive regions of (symbolic) length <= `np` start whenever the job is dispatched
    Regions,
    /// task under analysis with fixed preemption points: preemptable (arbitrary
    /// segment structure) during the first `prefix` units of service, where
    /// `prefix <= C - last_segment` is symbolic per job; non-preemptive afterwards
    LastSegment,
    /// floating regions of arbitrary length (task under analysis)
    Floating,
}

#[derive(Clone, Copy, Debug)]
pub struct TaskCfg {
    pub present: bool,
    pub wcet: u64,
    pub deadline: u64,
    pub preempt: Preempt,
    /// max. non-preemptive region (Preempt::Regions)
    pub np: u64,
    /// last non-preemptive segment (Preempt::LastSegment)
    pub last_seg: u64,
    /// FP: strictly higher priority than the task under analysis
    pub strict: bool,
}

#[derive(Clone, Copy, Debug)]
pub struct Jobs {
    pub rel: [u64; MAXN],
    pub cost: [u64; MAXN],
    /// LastSegment: per-job preemptable prefix
    pub prefix: [u64; MAXN],
    pub m: usize,
}

impl Jobs {
    pub fn none() -> Jobs {
        Jobs { rel: [0; MAXN], cost: [1; MAXN], prefix: [0; MAXN], m: 0 }
    }

    /// symbolic admissible job sequence of a task with curve `c` and WCET `wcet`
    pub fn any(s: &mut Src, c: &SymCurve, wcet: u64, first_mask: u8, gap_mask: u8, cfg: &TaskCfg) -> Jobs {
        let r = Releases::any(s, c, first_mask, gap_mask);
        let mut cost = [1u64; MAXN];
        let mut prefix = [0u64; MAXN];
        let mut i = 0;
        while i < MAXN {
            if i < c.n {
                // execution time in [1, wcet]
                let x = 1 + s.bits(3);
                cost[i] = if x > wcet { wcet } else { x };
                if cfg.preempt == Preempt::LastSegment {
                    let p = s.bits(3);
                    let pmax = wcet - cfg.last_seg;
                    prefix[i] = if p > pmax { pmax } else { p };
                }
            }
            i += 1;
        }
        Jobs { rel: r.r, cost, prefix, m: r.m }
    }
}

#[derive(Clone, Copy, Debug)]
pub struct Sched {
    pub policy: Policy,
    pub cfg: [TaskCfg; NT],
    pub jobs: [Jobs; NT],
    /// FP: blocking bound B (the blocker's regions last <= B+1)
    pub blocking: u64,
    // --- dynamic state
    /// number of completed jobs per task (= index of the head job)
    pub head: [usize; NT],
    /// remaining cost of the head job (valid once it was released/started)
    pub rem: [u64; NT],
    /// completion time of each job
    pub done_at: [[u64; MAXN]; NT],
    /// task (or NT = blocker) holding the processor non-preemptively, with the ticks left
    pub lock_owner: usize,
    pub lock_left: u64,
    pub t: u64,
    /// statistics for cover witnesses
    pub blocked_ticks: u64,
}

const NOBODY: usize = 99;

#[inline(always)]
fn sel(a: &[u64; MAXN], i: usize) -> u64 {
    let mut v = 0;
    let mut k = 0;
    while k < MAXN {
        if k == i {
            v = a[k];
        }
        k += 1;
    }
    v
}

impl Sched {
    pub fn new(policy: Policy, cfg: [TaskCfg; NT], jobs: [Jobs; NT], blocking: u64) -> Sched {
        let mut rem = [0u64; NT];
        let mut i = 0;
        while i < NT {
            rem[i] = jobs[i].cost[0];
            i += 1;
        }
        Sched {
            policy,
            cfg,
            jobs,
            blocking,
            head: [0; NT],
            rem,
            done_at: [[u64::MAX; MAXN]; NT],
            lock_owner: NOBODY,
            lock_left: 0,
            t: 0,
            blocked_ticks: 0,
        }
    }

    #[inline(always)]
    fn pending(&self, i: usize) -> bool {
        self.cfg[i].present && self.head[i] < self.jobs[i].m && sel(&self.jobs[i].rel, self.head[i]) <= self.t
    }

    #[inline(always)]
    fn head_release(&self, i: usize) -> u64 {
        sel(&self.jobs[i].rel, self.head[i])
    }

    /// may task `c` be dispatched at this decision point under the policy?
    fn legal_choice(&self, c: usize) -> bool {
        if !self.pending(c) {
            return false;
        }
        let mut ok = true;
        let mut j = 0;
        while j < NT {
            if j != c && self.pending(j) {
                match self.policy {
                    Policy::Fp => {
                        // the task under analysis yields to strictly-higher-priority tasks;
                        // the relative order of the other tasks is left open
                        if c == 0 && self.cfg[j].strict {
                            ok = false;
                        }
                    }
                    Policy::Edf => {
                        let dc = self.head_release(c) + self.cfg[c].deadline;
                        let dj = self.head_release(j) + self.cfg[j].deadline;
                        if dj < dc {
                            ok = false;
                        }
                    }
                    Policy::Fifo => {
                        if self.head_release(j) < self.head_release(c) {
                            ok = false;
                        }
                    }
                }
            }
            j += 1;
        }
        ok
    }

    /// one time slot [t, t+1)
    pub fn tick(&mut self, s: &mut Src) {
        let pick = s.bits(3) as usize; // candidate task at a decision point
        let ell = 1 + s.bits(3); // candidate region length, clamped below
        let mut run = NOBODY;
        if self.lock_left > 0 {
            run = self.lock_owner;
            self.lock_left -= 1;
        } else {
            let any_pending = self.pending(0) || self.pending(1) || self.pending(2);
            if any_pending {
                // work conserving: some pending task is dispatched; which one is a
                // symbolic choice constrained by the policy
                let mut legal = false;
                let mut i = 0;
                while i < NT {
                    if i == pick && self.legal_choice(i) {
                        legal = true;
                    }
                    i += 1;
                }
                assume(legal);
                run = pick;
                // index-free selection of the dispatched task's data
                let mut c = self.cfg[0];
                let mut rem = self.rem[0];
                let mut cost_h = sel(&self.jobs[0].cost, self.head[0]);
                let mut prefix_h = sel(&self.jobs[0].prefix, self.head[0]);
                let mut i = 1;
                while i < NT {
                    if i == pick {
                        c = self.cfg[i];
                        rem = self.rem[i];
                        cost_h = sel(&self.jobs[i].cost, self.head[i]);
                        prefix_h = sel(&self.jobs[i].prefix, self.head[i]);
                    }
                    i += 1;
                }
                let executed = cost_h - rem;
                let region = match c.preempt {
                    Preempt::Fully => 1,
                    Preempt::Never => rem,
                    Preempt::Regions => {
                        let mx = if c.np < rem { c.np } else { rem };
                        if ell > mx { mx } else { ell }
                    }
                    Preempt::Floating => {
                        if ell > rem { rem } else { ell }
                    }
                    Preempt::LastSegment => {
                        let p = prefix_h;
                        if executed >= p {
                            rem
                        } else {
                            let mx = if p - executed < rem { p - executed } else { rem };
                            if ell > mx { mx } else { ell }
                        }
                    }
                };
                self.lock_owner = pick;
                self.lock_left = region - 1;
            } else if self.policy == Policy::Fp {
                // lower-priority work: a non-preemptive region of length <= B + 1
                let mx = self.blocking + 1;
                let region = if ell > mx { mx } else { ell };
                run = NT;
                self.lock_owner = NT;
                self.lock_left = region - 1;
            }
        }
        if run == NT && self.pending(0) {
            self.blocked_ticks += 1;
        }
        if run < NT {
            // execute one unit of the head job of task `run` (index-free updates)
            let mut i = 0;
            while i < NT {
                if i == run {
                    self.rem[i] -= 1;
                    if self.rem[i] == 0 {
                        let h = self.head[i];
                        let mut k = 0;
                        while k < MAXN {
                            if k == h {
                                self.done_at[i][k] = self.t + 1;
                            }
                            k += 1;
                        }
                        self.head[i] = h + 1;
                        self.rem[i] = sel(&self.jobs[i].cost, h + 1);
                        // a completed job holds nothing
                        self.lock_left = 0;
                    }
                }
                i += 1;
            }
        }
        self.t += 1;
    }

    /// response time of job `k` of task `i`, if it completed
    pub fn response(&self, i: usize, k: usize) -> Option<u64> {
        if self.done_at[i][k] == u64::MAX {
            None
        } else {
            Some(self.done_at[i][k] - self.jobs[i].rel[k])
        }
    }

    /// every present job of task `i` completed within `r` of its release
    pub fn all_within(&self, i: usize, r: u64) -> bool {
        let mut ok = true;
        let mut k = 0;
        while k < MAXN {
            if k < self.jobs[i].m {
                match self.response(i, k) {
                    Some(x) => {
                        if x > r {
                            ok = false;
                        }
                    }
                    None => ok = false,
                }
            }
            k += 1;
        }
        ok
    }

    pub fn max_response(&self, i: usize) -> u64 {
        let mut mx = 0;
        let mut k = 0;
        while k < MAXN {
            if k < self.jobs[i].m {
                if let Some(x) = self.response(i, k) {
                    if x > mx {
                        mx = x;
                    }
                }
            }
            k += 1;
        }
        mx
    }

    /// latest release of task `i`'s present jobs (0 if none)
    pub fn last_release(&self, i: usize) -> u64 {
        let mut mx = 0;
        let mut k = 0;
        while k < MAXN {
            if k < self.jobs[i].m && self.jobs[i].rel[k] > mx {
                mx = self.jobs[i].rel[k];
            }
            k += 1;
        }
        mx
    }
}

#[macro_export]
macro_rules! rep2 { ($b:block) => { $b $b }; }
#[macro_export]
macro_rules! rep4 { ($b:block) => { $crate::rep2!($b); $crate::rep2!($b); }; }
#[macro_export]
macro_rules! rep8 { ($b:block) => { $crate::rep4!($b); $crate::rep4!($b); }; }
#[macro_export]
macro_rules! rep16 { ($b:block) => { $crate::rep8!($b); $crate::rep8!($b); }; }
/// expand `$b` `$n` times for n in {8,10,12,14,16,18,20}
#[macro_export]
macro_rules! rep {
    (8, $b:block) => { $crate::rep8!($b); };
    (10, $b:block) => { $crate::rep8!($b); $crate::rep2!($b); };
    (12, $b:block) => { $crate::rep8!($b); $crate::rep4!($b); };
    (14, $b:block) => { $crate::rep8!($b); $crate::rep4!($b); $crate::rep2!($b); };
    (16, $b:block) => { $crate::rep16!($b); };
    (18, $b:block) => { $crate::rep16!($b); $crate::rep2!($b); };
    (20, $b:block) => { $crate::rep16!($b); $crate::rep4!($b); };
}
