//! ROS 2 single-threaded executor under a reservation, discrete time
//! (DESIGN.md 4.3 + 4.4).  Written from the system model as the crate's
//! documentation and the property statement describe it:
//!
//! * timers are always served first, in priority order;
//! * other (polled) callbacks are served from a *ready set* that is refreshed
//!   only when it is empty (a polling point): every polled callback with a
//!   pending instance enters it and is served once (one instance), in
//!   priority order, before the next polling point;
//! * callbacks run non-preemptively and only progress in supplied slots;
//! * the next callback is selected either right at the completion instant
//!   (the selection still fits into the budget) or lazily at the next supplied
//!   slot - a symbolic choice per completion;
//! * processor time: slot t is supplied or not; every period of the
//!   reservation contains at least Q supplied slots (before the deadline).
//!
//! One `tick` simulates slot [t, t+1); it is expanded textually H times.

use crate::models::curve::MAXN;
use crate::sym::Src;

pub const NCB: usize = 3;
pub const NOBODY: usize = 99;

#[derive(Clone, Copy, Debug)]
pub struct CbCfg {
    pub present: bool,
    pub is_timer: bool,
    /// priority rank, smaller = higher; distinct among callbacks of the same class
    pub rank: u64,
    pub wcet: u64,
    /// successor in a processing chain (NOBODY = none): completion of an instance
    /// of this callback releases an instance of the successor
    pub next: usize,
}

#[derive(Clone, Copy, Debug)]
pub struct Inst {
    /// arrival times of the (externally triggered) instances, non-decreasing
    pub arr: [u64; MAXN],
    pub cost: [u64; MAXN],
    pub m: usize,
}

impl Inst {
    pub fn none() -> Inst {
        Inst { arr: [0; MAXN], cost: [1; MAXN], m: 0 }
    }
}

#[derive(Clone, Copy, Debug)]
pub struct Exec {
    pub cfg: [CbCfg; NCB],
    pub inst: [Inst; NCB],
    /// instances started so far (instances of one callback are served in order)
    pub started: [usize; NCB],
    /// completion time per instance
    pub done_at: [[u64; MAXN]; NCB],
    /// chain bookkeeping: arrival time of the chain's source event per instance
    pub src_arr: [[u64; MAXN]; NCB],
    pub ready: [bool; NCB],
    pub running: usize,
    pub rem: u64,
    pub t: u64,
    pub polling_points: u64,
}

#[inline(always)]
fn sel(a: &[u64; MAXN], i: usize) -> u64 {
    let mut v = 0;
    let mut k = 0;
    while k < MAXN {
        if k == i {
            v = a[k];
        }
        k += 1;
    }
    v
}

impl Exec {
    pub fn new(cfg: [CbCfg; NCB], inst: [Inst; NCB]) -> Exec {
        let mut src_arr = [[0u64; MAXN]; NCB];
        let mut i = 0;
        while i < NCB {
            src_arr[i] = inst[i].arr;
            i += 1;
        }
        Exec {
            cfg,
            inst,
            started: [0; NCB],
            done_at: [[u64::MAX; MAXN]; NCB],
            src_arr,
            ready: [false; NCB],
            running: NOBODY,
            rem: 0,
            t: 0,
            polling_points: 0,
        }
    }

    /// callback `i` has an instance that arrived by `now` and was not started yet
    #[inline(always)]
    fn pending(&self, i: usize, now: u64) -> bool {
        self.cfg[i].present && self.started[i] < self.inst[i].m && sel(&self.inst[i].arr, self.started[i]) <= now
    }

    /// the executor's selection at instant `now`; returns the chosen callback
    fn select(&mut self, now: u64) -> usize {
        // 1. timers first, by priority
        let mut best = NOBODY;
        let mut best_rank = u64::MAX;
        let mut i = 0;
        while i < NCB {
            if self.cfg[i].is_timer && self.pending(i, now) && self.cfg[i].rank < best_rank {
                best = i;
                best_rank = self.cfg[i].rank;
            }
            i += 1;
        }
        if best != NOBODY {
            return best;
        }
        // 2./3. ready set; refreshed only when it is empty (polling point)
        let any_ready = self.ready[0] || self.ready[1] || self.ready[2];
        if !any_ready {
            let mut i = 0;
            let mut found = false;
            while i < NCB {
                if !self.cfg[i].is_timer && self.pending(i, now) {
                    self.ready[i] = true;
                    found = true;
                }
                i += 1;
            }
            if found {
                self.polling_points += 1;
            }
        }
        let mut i = 0;
        while i < NCB {
            if self.ready[i] && self.cfg[i].rank < best_rank {
                best = i;
                best_rank = self.cfg[i].rank;
            }
            i += 1;
        }
        if best != NOBODY {
            let mut i = 0;
            while i < NCB {
                if i == best {
                    self.ready[i] = false;
                }
                i += 1;
            }
        }
        best
    }

    fn dispatch(&mut self, c: usize) {
        if c == NOBODY {
            return;
        }
        let mut i = 0;
        while i < NCB {
            if i == c {
                self.running = i;
                self.rem = sel(&self.inst[i].cost, self.started[i]);
                self.started[i] += 1;
            }
            i += 1;
        }
    }

    /// slot [t, t+1): `supplied` tells whether the reservation provides it
    pub fn tick(&mut self, s: &mut Src, supplied: bool) {
        let eager = s.flag();
        if supplied {
            if self.running == NOBODY {
                let c = self.select(self.t);
                self.dispatch(c);
            }
            if self.running != NOBODY {
                self.rem -= 1;
                if self.rem == 0 {
                    let c = self.running;
                    self.running = NOBODY;
                    // completion at t + 1 (index-free bookkeeping)
                    let mut i = 0;
                    while i < NCB {
                        if i == c {
                            let k = self.started[i] - 1;
                            let mut j = 0;
                            while j < MAXN {
                                if j == k {
                                    self.done_at[i][j] = self.t + 1;
                                }
                                j += 1;
                            }
                            // processing chain: release an instance of the successor
                            let nx = self.cfg[i].next;
                            let src = sel(&self.src_arr[i], k);
                            let mut n = 0;
                            while n < NCB {
                                if n == nx {
                                    let m = self.inst[n].m;
                                    let mut j = 0;
                                    while j < MAXN {
                                        if j == m {
                                            self.inst[n].arr[j] = self.t + 1;
                                            self.src_arr[n][j] = src;
                                        }
                                        j += 1;
                                    }
                                    if m < MAXN {
                                        self.inst[n].m = m + 1;
                                    }
                                }
                                n += 1;
                            }
                        }
                        i += 1;
                    }
                    if eager {
                        // the selection still fits into this budget: it sees what has arrived by t + 1
                        let c2 = self.select(self.t + 1);
                        self.dispatch(c2);
                    }
                }
            }
        }
        self.t += 1;
    }

    /// response time (completion - arrival of the chain's source event) of instance k of callback i
    pub fn response(&self, i: usize, k: usize) -> Option<u64> {
        if self.done_at[i][k] == u64::MAX {
            None
        } else {
            Some(self.done_at[i][k] - self.src_arr[i][k])
        }
    }

    pub fn all_within(&self, i: usize, r: u64) -> bool {
        let mut ok = true;
        let mut k = 0;
        while k < MAXN {
            if k < self.inst[i].m {
                match self.response(i, k) {
                    Some(x) => {
                        if x > r {
                            ok = false;
                        }
                    }
                    None => ok = false,
                }
            }
            k += 1;
        }
        ok
    }

    pub fn max_response(&self, i: usize) -> u64 {
        let mut mx = 0;
        let mut k = 0;
        while k < MAXN {
            if k < self.inst[i].m {
                if let Some(x) = self.response(i, k) {
                    if x > mx {
                        mx = x;
                    }
                }
            }
            k += 1;
        }
        mx
    }

    pub fn last_arrival(&self, i: usize) -> u64 {
        let mut mx = 0;
        let mut k = 0;
        while k < MAXN {
            if k < self.inst[i].m && self.src_arr[i][k] > mx {
                mx = self.src_arr[i][k];
            }
            k += 1;
        }
        mx
    }
}

/// Reservation: symbolic supplied slots over `HS` ticks; every period [kP, kP+P)
/// that lies inside the horizon holds at least Q supplied slots within [kP, kP+D).
pub const HS: usize = 16;

#[derive(Clone, Copy, Debug)]
pub struct Slots {
    pub s: [bool; HS],
}

impl Slots {
    pub fn dedicated() -> Slots {
        Slots { s: [true; HS] }
    }

    pub fn any(src: &mut Src, q: u64, d: u64, p: u64) -> Slots {
        let lo = src.u8();
        let hi = src.u8();
        let mut s = [false; HS];
        let mut i = 0usize;
        crate::rep8!({
            s[i] = (lo >> i) & 1 == 1;
            s[i + 8] = (hi >> i) & 1 == 1;
            i += 1;
        });
        let sl = Slots { s };
        crate::sym::assume(sl.respects(q, d, p));
        sl
    }

    /// single pass, textually unrolled (no loop over time, DESIGN.md 2.1 item 10)
    pub fn respects(&self, q: u64, d: u64, p: u64) -> bool {
        let mut ok = true;
        let mut off = 0u64; // offset inside the current period
        let mut cnt = 0u64; // supplied slots before the deadline in the current period
        let mut t = 0usize;
        crate::rep16!({
            if off < d && self.s[t] {
                cnt += 1;
            }
            off += 1;
            if off == p {
                // a whole period ends here
                if cnt < q {
                    ok = false;
                }
                off = 0;
                cnt = 0;
            }
            t += 1;
        });
        ok
    }
}
