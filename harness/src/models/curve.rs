//! `SymCurve`: an arbitrary finite arrival curve as a harness type
//! (DESIGN.md 2.1 item 4).  At most `n <= 3` jobs ever arrive; `s[i]` is the
//! shortest window length that can contain `i + 1` arrivals.  `s[0] == 1`,
//! positions non-decreasing (equal positions are bursts).  Division-free.

use response_time_analysis::arrival::ArrivalBound;
use response_time_analysis::time::Duration;

use crate::sym::Src;

pub const MAXN: usize = 3;

#[derive(Clone, Copy, Debug)]
pub struct SymCurve {
    pub s: [u64; MAXN],
    /// number of steps/jobs; a *shape* (concrete in every harness)
    pub n: usize,
}

impl SymCurve {
    /// `n` steps, increments between consecutive positions in `[0, inc_mask]`.
    pub fn any(src: &mut Src, n: usize, inc_mask: u8) -> SymCurve {
        let mut s = [u64::MAX; MAXN];
        let mut p = 1u64;
        let mut i = 0;
        while i < MAXN {
            if i < n {
                if i > 0 {
                    p += src.bits(inc_mask);
                }
                s[i] = p;
            }
            i += 1;
        }
        SymCurve { s, n }
    }

    pub fn concrete(steps: &[u64]) -> SymCurve {
        let mut s = [u64::MAX; MAXN];
        for (i, v) in steps.iter().enumerate() {
            s[i] = *v;
        }
        SymCurve { s, n: steps.len() }
    }

    /// eta(delta)
    #[inline(always)]
    pub fn na(&self, delta: u64) -> u64 {
        let mut c = 0;
        let mut i = 0;
        while i < MAXN {
            if i < self.n && self.s[i] <= delta {
                c += 1;
            }
            i += 1;
        }
        c
    }

    /// pointwise `self >= other` as curves (more arrivals in every window)
    pub fn dominates(&self, other: &SymCurve) -> bool {
        // eta_self(d) >= eta_other(d) for all d  <=>  for all j < other.n: j < self.n && self.s[j] <= other.s[j]
        let mut ok = true;
        let mut j = 0;
        while j < MAXN {
            if j < other.n {
                if !(j < self.n && self.s[j] <= other.s[j]) {
                    ok = false;
                }
            }
            j += 1;
        }
        ok
    }

    /// The curve's own step sequence is an admissible release pattern
    /// (releases at `s[i] - 1`): `s[k] - s[i] + 1 >= s[k-i]`.
    pub fn realisable(&self) -> bool {
        let mut ok = true;
        let mut k = 0;
        while k < MAXN {
            let mut i = 0;
            while i < k {
                if k < self.n {
                    if self.s[k] - self.s[i] + 1 < self.s[k - i] {
                        ok = false;
                    }
                }
                i += 1;
            }
            k += 1;
        }
        ok
    }
}

pub struct SymSteps {
    c: SymCurve,
    i: usize,
}

impl Iterator for SymSteps {
    type Item = Duration;
    fn next(&mut self) -> Option<Duration> {
        while self.i < self.c.n {
            let i = self.i;
            self.i += 1;
            if i == 0 || self.c.s[i] != self.c.s[i - 1] {
                return Some(Duration::from(self.c.s[i]));
            }
        }
        None
    }
}

impl ArrivalBound for SymCurve {
    fn number_arrivals(&self, delta: Duration) -> usize {
        self.na(u64::from(delta)) as usize
    }

    fn steps_iter<'a>(&'a self) -> Box<dyn Iterator<Item = Duration> + 'a> {
        Box::new(SymSteps { c: *self, i: 0 })
    }

    fn clone_with_jitter(&self, _jitter: Duration) -> Box<dyn ArrivalBound> {
        unimplemented!("SymCurve::clone_with_jitter is never used by the analyses")
    }
}

/// Admissible release sequence for a `SymCurve`: `m <= n` jobs, releases
/// non-decreasing, every closed window `[r_i, r_k]` holds at most
/// `eta(r_k - r_i + 1)` jobs, i.e. `r_k - r_i + 1 >= s[k-i]`.
#[derive(Clone, Copy, Debug)]
pub struct Releases {
    pub r: [u64; MAXN],
    pub m: usize,
}

impl Releases {
    /// first release in `[0, first_mask]`, gaps in `[0, gap_mask]`; the number
    /// of present jobs is symbolic in `[0, n]`.
    pub fn any(src: &mut Src, curve: &SymCurve, first_mask: u8, gap_mask: u8) -> Releases {
        let mut r = [0u64; MAXN];
        let mut t = src.bits(first_mask);
        let mut i = 0;
        while i < MAXN {
            if i < curve.n {
                if i > 0 {
                    t += src.bits(gap_mask);
                }
                r[i] = t;
            }
            i += 1;
        }
        let m = src.bits(3) as usize;
        crate::sym::assume(m <= curve.n);
        let rel = Releases { r, m };
        crate::sym::assume(rel.admissible(curve));
        rel
    }

    pub fn admissible(&self, c: &SymCurve) -> bool {
        let mut ok = true;
        let mut k = 0;
        while k < MAXN {
            let mut i = 0;
            while i < k {
                if k < self.m {
                    if self.r[k] < self.r[i] || self.r[k] - self.r[i] + 1 < c.s[k - i] {
                        ok = false;
                    }
                }
                i += 1;
            }
            k += 1;
        }
        ok
    }
}
