//! `SymDemand`: a request-bound function given as a table (stands for
//! aggregated interfering demand); `TwoTasks`: the exact sum of two
//! (SymCurve, scalar cost) tasks without the crate's boxed k-merge
//! (DESIGN.md 2.1 item 6).
use response_time_analysis::demand::RequestBound;
use response_time_analysis::time::{Duration, Service};

use super::curve::{SymCurve, MAXN};

#[derive(Clone, Copy, Debug)]
pub struct TwoTasks {
    pub a: SymCurve,
    pub ca: u64,
    pub b: SymCurve,
    pub cb: u64,
}

impl TwoTasks {
    #[inline(always)]
    pub fn rbf(&self, delta: u64) -> u64 {
        self.a.na(delta) * self.ca + self.b.na(delta) * self.cb
    }
}

pub struct TwoSteps {
    t: TwoTasks,
    ia: usize,
    ib: usize,
    last: u64,
}

impl Iterator for TwoSteps {
    type Item = Duration;
    fn next(&mut self) -> Option<Duration> {
        // merge of the two sorted position lists, duplicates removed
        loop {
            let ha = if self.ia < self.t.a.n { self.t.a.s[self.ia] } else { u64::MAX };
            let hb = if self.ib < self.t.b.n { self.t.b.s[self.ib] } else { u64::MAX };
            if ha == u64::MAX && hb == u64::MAX {
                return None;
            }
            let v = if ha <= hb {
                self.ia += 1;
                ha
            } else {
                self.ib += 1;
                hb
            };
            if v != self.last {
                self.last = v;
                return Some(Duration::from(v));
            }
        }
    }
}

impl RequestBound for TwoTasks {
    fn service_needed(&self, delta: Duration) -> Service {
        Service::from(self.rbf(u64::from(delta)))
    }

    fn least_wcet_in_interval(&self, delta: Duration) -> Service {
        let d = u64::from(delta);
        let na = self.a.na(d);
        let nb = self.b.na(d);
        let v = if na > 0 && nb > 0 {
            self.ca.min(self.cb)
        } else if na > 0 {
            self.ca
        } else if nb > 0 {
            self.cb
        } else {
            0
        };
        Service::from(v)
    }

    fn steps_iter<'a>(&'a self) -> Box<dyn Iterator<Item = Duration> + 'a> {
        Box::new(TwoSteps { t: *self, ia: 0, ib: 0, last: 0 })
    }

    fn job_cost_iter<'a>(&'a self, _delta: Duration) -> Box<dyn Iterator<Item = Service> + 'a> {
        unimplemented!("TwoTasks::job_cost_iter is never used by the analyses under test")
    }
}

pub const _MAXN: usize = MAXN;
