pub mod curve;
pub mod supply;
pub mod demand;
pub mod uniproc;
pub mod executor;
