//! Source of symbolic input.
//!
//! Under Kani every draw is a fresh `kani::any::<u8>()`; natively the draws are
//! served from a byte vector, which is how a solver counterexample (Kani
//! concrete playback prints one byte vector per `kani::any` call, in call
//! order) is replayed against the real crate in the dev and release profiles.
//!
//! All values are generated *structurally narrow* (`byte & mask`), never as a
//! wide integer plus `assume` (DESIGN.md 2.1 item 1): the masks are the value
//! bounds reported in the evidence.

pub struct Src {
    /// optional concrete prefix of the draw sequence (debugging aid under Kani)
    #[cfg(kani)]
    pub fixed: &'static [u8],
    #[cfg(kani)]
    pub fpos: usize,
    /// running sum / count of all raw draws: `finish()` asserts a (valid) fact
    /// about them so that no draw is sliced out of CBMC's equation - otherwise
    /// concrete playback silently omits don't-care draws and the recorded byte
    /// vector no longer lines up with the draw order.
    #[cfg(kani)]
    sum: u32,
    #[cfg(kani)]
    cnt: u32,
    #[cfg(not(kani))]
    data: Vec<u8>,
    #[cfg(not(kani))]
    pos: usize,
}

#[cfg(not(kani))]
thread_local! {
    pub static COVERS: std::cell::RefCell<Vec<&'static str>> = std::cell::RefCell::new(Vec::new());
}

impl Src {
    #[cfg(kani)]
    pub fn new() -> Src {
        Src { fixed: &[], fpos: 0, sum: 0, cnt: 0 }
    }

    #[cfg(not(kani))]
    pub fn new() -> Src {
        Src {
            data: Vec::new(),
            pos: 0,
        }
    }

    #[cfg(not(kani))]
    pub fn from_bytes(data: Vec<u8>) -> Src {
        Src { data, pos: 0 }
    }

    #[cfg(kani)]
    #[inline(always)]
    pub fn u8(&mut self) -> u8 {
        if self.fpos < self.fixed.len() {
            let v = self.fixed[self.fpos];
            self.fpos += 1;
            v
        } else {
            let v = kani::any::<u8>();
            self.sum += v as u32;
            self.cnt += 1;
            v
        }
    }

    #[cfg(kani)]
    pub fn finish(&self) {
        assert!(self.sum <= self.cnt * 255);
    }

    #[cfg(not(kani))]
    pub fn finish(&self) {}

    #[cfg(not(kani))]
    pub fn u8(&mut self) -> u8 {
        // bytes beyond the recorded vector are zero (Kani omits nothing, but
        // hand-written replays may be short)
        let v = self.data.get(self.pos).copied().unwrap_or(0);
        self.pos += 1;
        v
    }

    /// value in `[0, mask]`, `mask` = 2^k - 1
    #[inline(always)]
    pub fn bits(&mut self, mask: u8) -> u64 {
        (self.u8() & mask) as u64
    }

    #[inline(always)]
    pub fn flag(&mut self) -> bool {
        (self.u8() & 1) == 1
    }

    /// value in `[lo, lo + mask]`
    #[inline(always)]
    pub fn from(&mut self, lo: u64, mask: u8) -> u64 {
        lo + self.bits(mask)
    }

    /// value in `[lo, hi]` (mask must cover `hi - lo`); uses one assume
    #[inline(always)]
    pub fn range(&mut self, lo: u64, hi: u64, mask: u8) -> u64 {
        let v = lo + self.bits(mask);
        assume(v <= hi);
        v
    }

    #[cfg(not(kani))]
    pub fn consumed(&self) -> usize {
        self.pos
    }
}

/// Exit code used by the native replay when a recorded input violates a
/// harness assumption (i.e. the byte vector does not belong to this harness).
pub const ASSUME_EXIT: i32 = 3;

#[cfg(kani)]
#[inline(always)]
pub fn assume(c: bool) {
    kani::assume(c)
}

#[cfg(not(kani))]
pub fn assume(c: bool) {
    if !c {
        eprintln!("REPLAY: assumption of the harness does not hold for this input");
        if std::env::var("VERIF_DEBUG").is_ok() {
            eprintln!("{}", std::backtrace::Backtrace::force_capture());
        }
        std::process::exit(ASSUME_EXIT);
    }
}

#[macro_export]
macro_rules! cover {
    ($c:expr, $m:literal) => {{
        #[cfg(kani)]
        kani::cover!($c, $m);
        #[cfg(not(kani))]
        {
            if $c {
                $crate::sym::COVERS.with(|v| v.borrow_mut().push($m));
            }
        }
    }};
}

/// Declares a harness: a Kani proof with the given unwind bound plus an entry
/// in the native replay table.
///
/// `harness!(name, unwind, |s| { body })`
#[macro_export]
macro_rules! harness {
    ($name:ident, $unwind:literal, |$s:ident| $body:block) => {
        pub mod $name {
            #[allow(unused_imports)]
            use super::*;
            pub fn body($s: &mut $crate::sym::Src) $body

            #[cfg(kani)]
            #[kani::proof]
            #[kani::unwind($unwind)]
            pub fn $name() {
                let mut src = $crate::sym::Src::new();
                body(&mut src);
                src.finish();
            }
        }
    };
}
