#!/usr/bin/env python3
"""prints the markdown table of DESIGN.md section 10 from seeded/*/meta.json"""
import glob, json, os
rows = []
for f in sorted(glob.glob(os.path.join(os.path.dirname(os.path.abspath(__file__)), "seeded", "*", "meta.json"))):
    m = json.load(open(f))
    det = "**caught**" if m["detected"] else ("caught by E2" if m.get("e2_detected") else "not caught")
    rows.append("| %s | %s | %s | %s | %s | %s |" % (m["id"], m["breaks_property"], m.get("summary", ""), m["needs_to_manifest"], "`check %s`" % m["checked_with"], det + (": " + ", ".join(m["violating_harnesses"]) if m["violating_harnesses"] else "") + ((" - " + m["note"]) if m.get("note") else "")))
print("| id | property | change | needs | run | result |")
print("|----|----------|--------|-------|-----|--------|")
print("\n".join(rows))
