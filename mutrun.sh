#!/bin/bash
# Development-time helper (not part of any registered check): run checks of a
# scratch copy of /verif against a scratch worktree of /repo with a seeded
# change applied.   usage: mutrun.sh <id> <patch.diff> <demo.rs|-> <PROP> [extra verif.py args]
# Leaves a summary in /tmp/mut-<id>.result and removes the scratch copies.
set -u
id=$1; patch=$2; demo=$3; prop=$4; shift 4
W=/tmp/vmut-$id
rm -rf $W; mkdir -p $W
git -C /repo worktree add -q --detach $W/repo HEAD || exit 9
res=/tmp/mut-$id.result
: > $res
cd $W/repo
if [ "$demo" != "-" ]; then
  mkdir -p tests; cp $demo tests/demo.rs
  if cargo test --offline --test demo >$W/demo_base.log 2>&1; then echo "demo_on_base=pass" >> $res; else echo "demo_on_base=FAIL(unexpected)" >> $res; fi
fi
if ! git apply $patch; then echo "patch=does-not-apply" >> $res; cd /; git -C /repo worktree remove --force $W/repo; rm -rf $W; exit 8; fi
if [ "$demo" != "-" ]; then
  if cargo test --offline --test demo >$W/demo_mut.log 2>&1; then echo "demo_on_mutant=PASS(unexpected)" >> $res; else echo "demo_on_mutant=fail" >> $res; fi
  rm -f tests/demo.rs
fi
if cargo test --offline >$W/suite.log 2>&1; then echo "suite_on_mutant=pass" >> $res; else echo "suite_on_mutant=FAIL" >> $res; fi
rm -rf $W/repo/target
mkdir -p $W/verif
rsync -a --exclude 'target*' --exclude logs --exclude evidence --exclude replays --exclude .git /verif/ $W/verif/
sed -i "s#path = \"/repo\"#path = \"$W/repo\"#" $W/verif/harness/Cargo.toml $W/verif/replay-native/Cargo.toml
cd $W/verif
export VERIF_REPO=$W/repo
./verif.py check $prop "$@" > $W/check.log 2>&1
rc=$?
echo "check_rc=$rc" >> $res
grep -E "^VIOLATION|^KNOWN-FINDING|^INCONCLUSIVE|violation|HELD|VIOLATED|INCONCLUSIVE" $W/check.log | cut -c1-300 >> $res
cp $W/check.log /tmp/mut-$id.check.log
cd /
git -C /repo worktree remove --force $W/repo
rm -rf $W
cat $res
