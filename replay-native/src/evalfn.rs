//! Native evaluation of the loop-free kernels that engine E2 (MIR -> SMT) encodes; used to
//! validate the encoding on sample points and to confirm solver models before reporting.
//! stdin: one query per line, e.g. `constrained_sbf 2 3 5 17`; stdout: one value per line
//! (or `PANIC`).
use std::io::BufRead;

use response_time_analysis::arrival::{ArrivalBound, Periodic as APeriodic, Sporadic};
use response_time_analysis::supply::{Constrained, Periodic, SupplyBound};
use response_time_analysis::time::{Duration, Service};

fn eval(f: &str, a: &[u64]) -> u64 {
    match f {
        "periodic_sbf" => u64::from(Periodic { period: Duration::from(a[1]), budget: Service::from(a[0]) }.provided_service(Duration::from(a[2]))),
        "periodic_st" => u64::from(Periodic { period: Duration::from(a[1]), budget: Service::from(a[0]) }.service_time(Service::from(a[2]))),
        "constrained_sbf" => u64::from(
            Constrained { period: Duration::from(a[2]), budget: Service::from(a[0]), deadline: Duration::from(a[1]) }.provided_service(Duration::from(a[3])),
        ),
        "constrained_st" => u64::from(
            Constrained { period: Duration::from(a[2]), budget: Service::from(a[0]), deadline: Duration::from(a[1]) }.service_time(Service::from(a[3])),
        ),
        "sporadic_na" => Sporadic::new(Duration::from(a[0]), Duration::from(a[1])).number_arrivals(Duration::from(a[2])) as u64,
        "periodic_na" => APeriodic::new(Duration::from(a[0])).number_arrivals(Duration::from(a[1])) as u64,
        _ => panic!("unknown function {}", f),
    }
}

fn main() {
    std::panic::set_hook(Box::new(|_| {}));
    let stdin = std::io::stdin();
    for line in stdin.lock().lines() {
        let line = line.unwrap();
        let mut it = line.split_whitespace();
        let f = match it.next() {
            Some(f) => f.to_string(),
            None => continue,
        };
        let a: Vec<u64> = it.map(|x| x.parse().unwrap()).collect();
        match std::panic::catch_unwind(|| eval(&f, &a)) {
            Ok(v) => println!("{}", v),
            Err(_) => println!("PANIC"),
        }
    }
}
