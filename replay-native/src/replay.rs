//! Native replay of a solver counterexample.
//!
//! usage: replay <harness> <comma-separated bytes>   |   replay --list
//! exit 0: harness body ran to completion (assertions held)
//! exit 101: a panic (assertion failure of the harness or panic inside the crate)
//! exit 3: the input violates a harness assumption
use rta_verif_harness::{sym::Src, table};

fn main() {
    let args: Vec<String> = std::env::args().collect();
    let t = table();
    if args.len() >= 2 && args[1] == "--list" {
        for (n, _) in &t.entries {
            println!("{}", n);
        }
        return;
    }
    if args.len() < 3 {
        eprintln!("usage: replay <harness> <b0,b1,...>");
        std::process::exit(2);
    }
    let bytes: Vec<u8> = args[2]
        .split(',')
        .filter(|s| !s.trim().is_empty())
        .map(|s| s.trim().parse::<u8>().expect("byte"))
        .collect();
    let f = t
        .entries
        .iter()
        .find(|(n, _)| *n == args[1])
        .unwrap_or_else(|| {
            eprintln!("unknown harness {}", args[1]);
            std::process::exit(2)
        })
        .1;
    let mut src = Src::from_bytes(bytes);
    f(&mut src);
    rta_verif_harness::sym::COVERS.with(|c| {
        for m in c.borrow().iter() {
            println!("COVER {}", m);
        }
    });
    println!("REPLAY-OK consumed={}", src.consumed());
}
