#!/usr/bin/env python3
"""E2 - MIR -> SMT for loop-free integer kernels of response-time-analysis-rs.

The crate's optimised MIR (`cargo +nightly rustc -- -Zunpretty=mir -Zmir-opt-level=3
-Zinline-mir=yes -C overflow-checks=on`) is dumped from /repo's current working tree
on every run, parsed, and the requested functions are executed symbolically block by
block (they are loop-free; a back edge is an error).  Machine integers are encoded as
mathematical integers with *explicit range obligations*: every `*WithOverflow`
operation yields its exact integer result plus the flag "result outside [0, 2^64)",
and MIR's own `assert(!flag)` terminators become panic obligations.  Hence "no
overflow / no division by zero within the stated parameter range" is a solver result,
not an assumption, and on panic-free paths integer and machine semantics coincide.

Calls to the small wrapper functions of src/time.rs and to other crate functions are
inlined from the same dump (resolved through the `impl at file:line` span in the
callee's MIR header and the source text at that span).

Used by verif.py for the wide-range part of C09 (and as a library by C10).
"""
import os
import re
import subprocess
import sys

import z3

U64_MAX = 2**64 - 1


class MirError(Exception):
    pass


# --------------------------------------------------------------------------
# dumping and parsing


def dump_mir(repo="/repo", scratch=None):
    """returns the MIR text of the crate at `repo` (built in a scratch target dir)"""
    scratch = scratch or "/tmp/rta-verif-mir-%d" % os.getpid()
    os.makedirs(scratch, exist_ok=True)
    env = dict(os.environ, CARGO_NET_OFFLINE="true", CARGO_TARGET_DIR=os.path.join(scratch, "target"))
    # a fresh target dir => rustc always runs and prints the MIR
    cmd = [
        "cargo", "+nightly", "rustc", "--offline", "--lib", "--",
        "-Zunpretty=mir", "-Zmir-opt-level=3", "-Zinline-mir=yes",
        "-Zinline-mir-threshold=500", "-Zinline-mir-hint-threshold=500",
        "-C", "debug-assertions=off", "-C", "overflow-checks=on",
    ]
    p = subprocess.run(cmd, cwd=repo, env=env, stdout=subprocess.PIPE, stderr=subprocess.PIPE, text=True)
    import shutil
    shutil.rmtree(scratch, ignore_errors=True)
    if p.returncode != 0 or "fn " not in p.stdout:
        raise MirError("MIR dump failed: " + p.stderr[-2000:])
    return p.stdout


FN_RE = re.compile(r"^fn (.+?)\((.*?)\) -> (.+?) \{$")


class Func:
    def __init__(self, name, args, ret):
        self.name = name
        self.args = args  # list of (local, type)
        self.ret = ret
        self.types = {}
        self.blocks = {}  # bb -> (stmts, terminator)


def parse_mir(text):
    funcs = []
    cur = None
    bb = None
    stmts = None
    for raw in text.split("\n"):
        line = raw.rstrip()
        if cur is None:
            m = FN_RE.match(line)
            if m:
                args = []
                if m.group(2).strip():
                    for a in split_top(m.group(2)):
                        nm, ty = a.split(":", 1)
                        args.append((nm.strip(), ty.strip()))
                cur = Func(m.group(1), args, m.group(3))
                for nm, ty in args:
                    cur.types[nm] = ty
                cur.types["_0"] = m.group(3)
            continue
        if line == "}":
            funcs.append(cur)
            cur = None
            continue
        s = line.strip()
        if bb is None:
            m = re.match(r"let (?:mut )?(_\d+): (.+);$", s)
            if m:
                cur.types[m.group(1)] = m.group(2)
                continue
            m = re.match(r"(bb\d+)(?: \(cleanup\))?: \{$", s)
            if m:
                bb = m.group(1)
                stmts = []
            continue
        if s == "}":
            cur.blocks[bb] = (stmts[:-1], stmts[-1] if stmts else "")
            bb = None
            continue
        if not s or s.startswith("//") or s.startswith("StorageLive") or s.startswith("StorageDead") or s == "nop;":
            continue
        stmts.append(s)
    return funcs


def split_top(s):
    """split on commas not nested in brackets"""
    out, depth, cur = [], 0, ""
    for ch in s:
        if ch in "([{<":
            depth += 1
        elif ch in ")]}>":
            depth -= 1
        if ch == "," and depth == 0:
            out.append(cur.strip())
            cur = ""
        else:
            cur += ch
    if cur.strip():
        out.append(cur.strip())
    return out


# --------------------------------------------------------------------------
# resolving callees


def norm_ty(t):
    t = t.strip()
    for pre in ("time::", "crate::", "arrival::", "supply::", "std::ops::", "core::ops::"):
        t = t.replace(pre, "")
    return t


class Program:
    def __init__(self, text, repo="/repo"):
        self.funcs = parse_mir(text)
        self.repo = repo
        self.by_key = {}
        self.by_name = {}
        self._src = {}
        for f in self.funcs:
            self.by_name.setdefault(f.name, f)
            k = self.key_of_def(f)
            if k and k not in self.by_key:
                self.by_key[k] = f

    def src_line(self, path, line):
        if path not in self._src:
            with open(os.path.join(self.repo, path)) as fh:
                self._src[path] = fh.read().split("\n")
        return self._src[path][line - 1]

    def key_of_def(self, f):
        """(self type, trait or None, trait parameter or None, method)"""
        m = re.match(r"^(?:[\w:]+::)?<impl at (src/[\w/]+\.rs):(\d+):(\d+): (\d+):(\d+)>::(\w+)$", f.name)
        if not m:
            return None
        path, l1, c1, l2, c2, method = m.group(1), int(m.group(2)), int(m.group(3)), int(m.group(4)), int(m.group(5)), m.group(6)
        text = self.src_line(path, l1)
        im = re.match(r"\s*impl(?:<[^>]*>)?\s+(?:(?:std::ops::|core::ops::)?(\w+)(?:<([\w:]+)>)?\s+for\s+)?([\w:]+)", text)
        if text.lstrip().startswith("impl") and im:
            return (norm_ty(im.group(3)), im.group(1), norm_ty(im.group(2)) if im.group(2) else None, method)
        # a derive: the span covers the trait name inside #[derive(...)]; the type follows
        trait = text[c1 - 1 : c2 - 1].strip()
        lines = self._src[path]
        for i in range(l1, min(l1 + 30, len(lines))):
            sm = re.match(r"\s*pub struct (\w+)", lines[i])
            if sm:
                param = None
                if trait in ("From", "Into"):
                    param = "u64"
                return (sm.group(1), trait, param, method)
        return None

    def resolve(self, callee):
        callee = callee.strip()
        m = re.match(r"^<([\w:]+) as ([\w:]+?)(?:<([\w:]+)>)?>::(\w+)$", callee)
        if m:
            selfty, trait, param, method = norm_ty(m.group(1)), norm_ty(m.group(2)).split("::")[-1], m.group(3), m.group(4)
            param = norm_ty(param) if param else None
            cands = [f for k, f in self.by_key.items() if k[0] == selfty and k[1] == trait and k[3] == method and (k[2] == param or k[2] is None or param is None)]
            exact = [f for k, f in self.by_key.items() if k == (selfty, trait, param, method)]
            if exact:
                return exact[0]
            if len(cands) == 1:
                return cands[0]
            raise MirError("cannot resolve trait call %s (candidates %d)" % (callee, len(cands)))
        if re.match(r"^\w+$", callee) and callee in self.by_name:
            return self.by_name[callee]
        m = re.match(r"^([\w:]+)::(\w+)$", callee)
        if m:
            selfty, method = norm_ty(m.group(1)), m.group(2)
            k = (selfty.split("::")[-1], None, None, method)
            if k in self.by_key:
                return self.by_key[k]
            # free function
            for nm in (callee, callee.replace("crate::", "")):
                if nm in self.by_name:
                    return self.by_name[nm]
            tail = [f for f in self.funcs if f.name.endswith("::" + method) and "<impl" not in f.name]
            if len(tail) == 1:
                return tail[0]
        raise MirError("cannot resolve call to %s" % callee)

    def find(self, self_type, trait, method):
        for k, f in self.by_key.items():
            if k[0] == self_type and k[1] == trait and k[3] == method:
                return f
        raise MirError("function not found: %s %s %s" % (self_type, trait, method))


# --------------------------------------------------------------------------
# symbolic execution


class Ctx:
    def __init__(self, prog):
        self.prog = prog
        self.panics = []  # (path condition, message)
        self.depth = 0


def zbool(v):
    if isinstance(v, bool):
        return z3.BoolVal(v)
    if z3.is_bool(v):
        return v
    return v != 0


def zint(v):
    if isinstance(v, bool):
        return z3.IntVal(1 if v else 0)
    if isinstance(v, int):
        return z3.IntVal(v)
    if z3.is_bool(v):
        return z3.If(v, z3.IntVal(1), z3.IntVal(0))
    return v


def merge(c, a, b):
    """if c then a else b, structurally"""
    if a is None:
        return b
    if b is None:
        return a
    if isinstance(a, dict) and isinstance(b, dict):
        return {k: merge(c, a.get(k), b.get(k)) for k in set(a) | set(b)}
    if isinstance(a, dict) or isinstance(b, dict):
        return a if isinstance(a, dict) else b
    if z3.is_bool(a) or isinstance(a, bool) or z3.is_bool(b) or isinstance(b, bool):
        if (z3.is_bool(a) or isinstance(a, bool)) and (z3.is_bool(b) or isinstance(b, bool)):
            return z3.If(c, zbool(a), zbool(b))
    return z3.If(c, zint(a), zint(b))


PLACE_TOK = re.compile(r"\s*(\(|\)|\*|_\d+|\.\d+|: [^()]*?(?=\))|\bas variant#\d+\b)")


def parse_place(s):
    """returns (base local, [field indices]) ; derefs are transparent (value semantics)"""
    s = s.strip()
    fields = []
    base = None
    for m in re.finditer(r"_(\d+)|\.(\d+)(?=:)|\.(\d+)(?=\)|$)", s):
        if m.group(1) is not None and base is None:
            base = "_" + m.group(1)
        elif m.group(2) is not None:
            fields.append(int(m.group(2)))
        elif m.group(3) is not None:
            fields.append(int(m.group(3)))
    if base is None:
        raise MirError("cannot parse place: " + s)
    return base, fields


def parse_const(s):
    s = s.strip()
    m = re.match(r"^const (-?\d+)_(?:u|i)(?:8|16|32|64|128|size)$", s)
    if m:
        return int(m.group(1))
    if s == "const true":
        return True
    if s == "const false":
        return False
    m = re.match(r"^const (?:[\w:]+::)?(Less|Equal|Greater)$", s)
    if m:
        return {"Less": -1, "Equal": 0, "Greater": 1}[m.group(1)]
    return None


class Frame:
    def __init__(self, f, args):
        self.f = f
        self.env = {}
        for (nm, _ty), v in zip(f.args, args):
            self.env[nm] = v

    def read(self, op):
        op = op.strip()
        for kw in ("copy ", "move "):
            if op.startswith(kw):
                op = op[len(kw):]
        c = parse_const(op)
        if c is not None:
            return c
        if op.startswith("const "):
            # struct constants such as `const Duration {{ val: 1_u64 }}`
            m = re.search(r"val: (\d+)_u64", op)
            if m:
                return {0: int(m.group(1))}
            m = re.search(r"const (?:[\w:]+::)?\w+ \{\{ (\w+): (\d+)_u64", op)
            raise MirError("unsupported constant: " + op)
        base, fields = parse_place(op)
        v = self.env.get(base)
        for fi in fields:
            if isinstance(v, tuple):
                v = v[fi]
            elif isinstance(v, dict):
                v = v.get(fi)
            else:
                raise MirError("projection .%d of non-aggregate in %s (%r)" % (fi, op, v))
        if v is None:
            raise MirError("read of unset place %s in %s" % (op, self.f.name))
        return v

    def write(self, place, v):
        base, fields = parse_place(place)
        if not fields:
            self.env[base] = v
            return
        cur = self.env.get(base)
        if not isinstance(cur, dict):
            cur = {}
        cur = dict(cur)
        tgt = cur
        for fi in fields[:-1]:
            nxt = dict(tgt.get(fi) or {})
            tgt[fi] = nxt
            tgt = nxt
        tgt[fields[-1]] = v
        self.env[base] = cur


BINOPS = {"Lt": lambda a, b: a < b, "Le": lambda a, b: a <= b, "Gt": lambda a, b: a > b, "Ge": lambda a, b: a >= b,
          "Eq": lambda a, b: a == b, "Ne": lambda a, b: a != b}


def eval_rvalue(ctx, fr, rhs, pc):
    rhs = rhs.strip()
    m = re.match(r"^(Add|Sub|Mul)WithOverflow\((.*)\)$", rhs)
    if m:
        a, b = [zint(fr.read(x)) for x in split_top(m.group(2))]
        r = {"Add": a + b, "Sub": a - b, "Mul": a * b}[m.group(1)]
        return (r, z3.Or(r < 0, r > U64_MAX))
    m = re.match(r"^(Lt|Le|Gt|Ge|Eq|Ne)\((.*)\)$", rhs)
    if m:
        a, b = [zint(fr.read(x)) for x in split_top(m.group(2))]
        return BINOPS[m.group(1)](a, b)
    m = re.match(r"^Cmp\((.*)\)$", rhs)
    if m:
        a, b = [zint(fr.read(x)) for x in split_top(m.group(1))]
        return z3.If(a < b, z3.IntVal(-1), z3.If(a == b, z3.IntVal(0), z3.IntVal(1)))
    m = re.match(r"^(Div|Rem)\((.*)\)$", rhs)
    if m:
        a, b = [zint(fr.read(x)) for x in split_top(m.group(2))]
        # operands are non-negative on panic-free paths: z3's div/mod are floor-based there
        return a / b if m.group(1) == "Div" else a % b
    m = re.match(r"^(Add|Sub|Mul)\((.*)\)$", rhs)
    if m:
        # unchecked forms only appear where the compiler proved the absence of overflow
        a, b = [zint(fr.read(x)) for x in split_top(m.group(2))]
        return {"Add": a + b, "Sub": a - b, "Mul": a * b}[m.group(1)]
    m = re.match(r"^Not\((.*)\)$", rhs)
    if m:
        return z3.Not(zbool(fr.read(m.group(1))))
    m = re.match(r"^discriminant\((.*)\)$", rhs)
    if m:
        return fr.read(m.group(1))
    m = re.match(r"^(?:copy |move )?(.*) as (?:u64|usize|u128|i8) \(IntToInt\)$", rhs)
    if m:
        return zint(fr.read(m.group(1)))
    m = re.match(r"^(?:copy |move )?(.*) as (?:u64|usize) \(Transmute\)$", rhs)
    if m:
        return zint(fr.read(m.group(1)))
    m = re.match(r"^&(?:mut )?(.*)$", rhs)
    if m:
        return fr.read(m.group(1))  # value semantics: no mutation through references here
    m = re.match(r"^Option::<.*>::Some\(.*\)$", rhs)
    if m:
        return {"opaque": True}
    m = re.match(r"^\((.*)\)$", rhs)
    if m and "," in m.group(1):
        return tuple(fr.read(x) for x in split_top(m.group(1)))
    m = re.match(r"^[\w:<> ,]+? \{ (.*) \}$", rhs)
    if m:
        out = {}
        for i, fld in enumerate(split_top(m.group(1))):
            _nm, val = fld.split(":", 1)
            out[i] = fr.read(val)
        return out
    return fr.read(rhs)


def run(ctx, f, args, pc):
    """symbolically executes f; returns the return value (paths merged with ite)"""
    ctx.depth += 1
    if ctx.depth > 12:
        raise MirError("call depth exceeded (recursion?) at " + f.name)
    fr = Frame(f, args)
    results = []  # (pc, value)

    def go(bb, pc, env, visited):
        if bb in visited:
            raise MirError("loop at %s in %s - not a loop-free kernel" % (bb, f.name))
        visited = visited | {bb}
        fr.env = env
        stmts, term = f.blocks[bb]
        for st in stmts:
            m = re.match(r"^(.+?) = (.+);$", st)
            if not m:
                raise MirError("unsupported statement: %s" % st)
            fr.write(m.group(1), eval_rvalue(ctx, fr, m.group(2), pc))
        env = fr.env
        t = term
        if t == "return;":
            results.append((pc, env.get("_0")))
            return
        if t == "unreachable;":
            return
        m = re.match(r"^goto -> (bb\d+);$", t)
        if m:
            return go(m.group(1), pc, env, visited)
        m = re.match(r"^switchInt\((.*?)\) -> \[(.*)\];$", t)
        if m:
            v = fr.read(m.group(1))
            other = None
            taken = []
            for arm in split_top(m.group(2)):
                k, tgt = [x.strip() for x in arm.split(":")]
                if k == "otherwise":
                    other = tgt
                else:
                    taken.append((int(k), tgt))
            conds = []
            for k, tgt in taken:
                if z3.is_bool(v) or isinstance(v, bool):
                    c = zbool(v) if k != 0 else z3.Not(zbool(v))
                else:
                    c = zint(v) == k
                conds.append(c)
                go(tgt, z3.And(pc, c), dict(env), visited)
            if other is not None:
                go(other, z3.And(pc, z3.Not(z3.Or(conds))) if conds else pc, dict(env), visited)
            return
        m = re.match(r"^assert\((!?)(.*?), \"(.*?)\".*\) -> \[success: (bb\d+).*\];$", t)
        if m:
            c = zbool(fr.read(m.group(2)))
            ok = z3.Not(c) if m.group(1) == "!" else c
            ctx.panics.append((z3.And(pc, z3.Not(ok)), "%s: %s" % (f.name.split("::")[-1], m.group(3))))
            return go(m.group(4), z3.And(pc, ok), env, visited)
        m = re.match(r"^(.+?) = (.+?)\((.*)\) -> \[return: (bb\d+).*\];$", t)
        if m:
            dest, callee, argstr, nxt = m.group(1), m.group(2), m.group(3), m.group(4)
            cf = ctx.prog.resolve(callee)
            cargs = [fr.read(a) for a in split_top(argstr)] if argstr.strip() else []
            rv = run(ctx, cf, cargs, pc)
            fr.env = env
            fr.write(dest, rv)
            return go(nxt, pc, fr.env, visited)
        raise MirError("unsupported terminator in %s: %s" % (f.name, t))

    go("bb0", pc, dict(fr.env), frozenset())
    ctx.depth -= 1
    if not results:
        raise MirError("no return path in " + f.name)
    val = results[-1][1]
    for c, v in reversed(results[:-1]):
        val = merge(c, v, val)
    return val


def call(prog, f, args, pc=None):
    """returns (return value, [(panic condition, message)])"""
    ctx = Ctx(prog)
    rv = run(ctx, f, args, pc if pc is not None else z3.BoolVal(True))
    return rv, ctx.panics


def scalar(v):
    """unwrap single-field wrappers (Duration/Service/Offset)"""
    while isinstance(v, dict):
        v = v[0]
    return zint(v)


if __name__ == "__main__":
    text = dump_mir(sys.argv[1] if len(sys.argv) > 1 else "/repo")
    prog = Program(text)
    print("functions parsed:", len(prog.funcs), "resolvable impl methods:", len(prog.by_key))
