#!/usr/bin/env python3
"""E2 queries: wide-range facts about the supply-bound functions (C09) and the
periodic/sporadic arrival bounds (C10), decided by an SMT solver over an encoding
generated from /repo's current MIR (mir2smt.py).

run_e2(prop) -> dict(status, queries=[...], ...)
  status: "held" | "violation" | "inconclusive"
A query is UNSAT (holds for every value in the stated range) only if z3 says unsat and
the independent cross-check (cvc5 on the exported SMT-LIB text) does not contradict it;
SAT models are confirmed natively (replay-native/target/release/evalfn) before a
violation is reported; unknown/timeouts are reported as undecided - never as success.
"""
import os
import random
import subprocess
import sys
import time

HERE = os.path.dirname(os.path.abspath(__file__))
sys.path.insert(0, HERE)
import z3  # noqa: E402

import mir2smt as M  # noqa: E402

EVALFN = os.path.join(os.path.dirname(HERE), "replay-native", "target", "release", "evalfn")
PMAX = 65536
XMAX = 1000000
TIMEOUT_MS = 90000


def native(queries):
    """queries: list of 'fn a b c' strings -> list of int or 'PANIC'"""
    p = subprocess.run([EVALFN], input="\n".join(queries) + "\n", stdout=subprocess.PIPE, text=True, timeout=120)
    out = []
    for line in p.stdout.split():
        out.append(line if line == "PANIC" else int(line))
    return out


class Enc:
    def __init__(self, prog):
        self.prog = prog
        self.P, self.Q, self.D = z3.Ints("P Q D")
        self.T, self.J = z3.Ints("T J")

    def sup(self, kind):
        if kind == "Periodic":
            return {0: {0: self.P}, 1: {0: self.Q}}
        return {0: {0: self.P}, 1: {0: self.Q}, 2: {0: self.D}}

    def fn(self, kind, trait, method, selfv, x):
        f = self.prog.find(kind, trait, method)
        rv, pan = M.call(self.prog, f, [selfv, {0: x}])
        return M.scalar(rv), [c for c, _ in pan]

    def sbf(self, kind, x):
        return self.fn(kind, "SupplyBound", "provided_service", self.sup(kind), x)

    def st(self, kind, x):
        return self.fn(kind, "SupplyBound", "service_time", self.sup(kind), x)

    def na(self, kind, x):
        selfv = {0: {0: self.T}, 1: {0: self.J}} if kind == "Sporadic" else {0: {0: self.T}}
        return self.fn(kind, "ArrivalBound", "number_arrivals", selfv, x)


def cross_check(smt2, timeout_s=20):
    """second opinion by cvc5 on the exported problem; returns 'unsat'/'sat'/'unknown'/'error'"""
    try:
        p = subprocess.run(["cvc5", "--lang", "smt2", "--tlimit=%d" % (timeout_s * 1000)], input=smt2, stdout=subprocess.PIPE, stderr=subprocess.STDOUT, text=True, timeout=timeout_s + 10)
    except (subprocess.TimeoutExpired, FileNotFoundError):
        return "unknown"
    out = p.stdout.strip()
    if "(error" in out or "error" in out.lower():
        return "error"
    for tok in ("unsat", "sat", "unknown"):
        if out.startswith(tok):
            return tok
    return "unknown"


def old_z3(smt2, timeout_s=20):
    try:
        p = subprocess.run(["/usr/bin/z3", "-in", "-T:%d" % timeout_s], input=smt2 + "\n(check-sat)\n" if "(check-sat)" not in smt2 else smt2,
                           stdout=subprocess.PIPE, stderr=subprocess.STDOUT, text=True, timeout=timeout_s + 10)
    except (subprocess.TimeoutExpired, FileNotFoundError):
        return "unknown"
    out = p.stdout.strip()
    if "(error" in out:
        return "error"
    for tok in ("unsat", "sat", "unknown", "timeout"):
        if out.startswith(tok):
            return "unknown" if tok == "timeout" else tok
    return "unknown"


def decide(name, assumptions, goal, confirm=None, vars_=()):
    """is `goal` valid under `assumptions`?"""
    s = z3.Solver()
    s.set("timeout", TIMEOUT_MS)
    s.add(*assumptions)
    s.add(z3.Not(goal))
    t0 = time.time()
    r = s.check()
    rec = {"query": name, "z3": str(r), "z3_s": round(time.time() - t0, 2)}
    if r == z3.unsat:
        smt2 = "(set-logic ALL)\n" + s.to_smt2()
        t1 = time.time()
        rec["cvc5"] = cross_check(smt2)
        rec["cvc5_s"] = round(time.time() - t1, 2)
        if rec["cvc5"] != "unsat":
            # third opinion: the distribution's older z3
            rec["z3_4_8"] = old_z3(smt2)
        if rec["cvc5"] == "sat" or rec.get("z3_4_8") == "sat":
            rec["verdict"] = "disagreement"
        else:
            rec["verdict"] = "unsat"
    elif r == z3.sat:
        m = s.model()
        rec["model"] = {str(v): m.eval(v, model_completion=True).as_long() for v in vars_}
        rec["verdict"] = "sat"
        if confirm is not None:
            rec["native_confirms"] = bool(confirm(rec["model"]))
    else:
        rec["verdict"] = "unknown"
    return rec


def validate(prog, enc, seed):
    """the encoding reproduces the real functions on sample points (incl. the values of
    the repository's own supply tests: budgets/periods 3/5, 2/7, 5/10, deadlines in between)"""
    rnd = random.Random(seed)
    pts = [(3, 5, 5), (2, 7, 7), (5, 10, 10), (2, 3, 5), (1, 1, 1), (1, 4, 9), (7, 7, 7), (3, 6, 11)]
    for _ in range(24):
        p = rnd.randint(1, 60)
        d = rnd.randint(1, p)
        q = rnd.randint(1, d)
        pts.append((q, d, p))
    xs = [0, 1, 2, 3, 5, 8, 13, 21, 34, 55, 89, 144, 999]
    x = z3.Int("x")
    exprs = {
        "periodic_sbf": enc.sbf("Periodic", x)[0], "periodic_st": enc.st("Periodic", x)[0],
        "constrained_sbf": enc.sbf("Constrained", x)[0], "constrained_st": enc.st("Constrained", x)[0],
        "sporadic_na": enc.na("Sporadic", x)[0], "periodic_na": enc.na("Periodic", x)[0],
    }
    queries, expect = [], []
    for (q, d, p) in pts:
        for xv in xs:
            sub = [(enc.P, z3.IntVal(p)), (enc.Q, z3.IntVal(q)), (enc.D, z3.IntVal(d)), (enc.T, z3.IntVal(p)), (enc.J, z3.IntVal(d - 1)), (x, z3.IntVal(xv))]
            for fn, e in exprs.items():
                if fn.startswith("periodic_s"):
                    queries.append("%s %d %d %d" % (fn, q, p, xv))
                elif fn.startswith("constrained"):
                    queries.append("%s %d %d %d %d" % (fn, q, d, p, xv))
                elif fn == "sporadic_na":
                    queries.append("%s %d %d %d" % (fn, p, d - 1, xv))
                else:
                    queries.append("%s %d %d" % (fn, p, xv))
                expect.append(z3.simplify(z3.substitute(e, *sub)).as_long())
    got = native(queries)
    bad = [(qq, g, e) for qq, g, e in zip(queries, got, expect) if g != e]
    return len(queries), bad


def run_e2(prop, seed=0):
    t0 = time.time()
    res = {"engine": "E2 MIR->SMT (z3 %s via python API, cross-checked by cvc5)" % z3.get_version_string(), "queries": [], "status": "held"}
    try:
        repo = os.environ.get("VERIF_REPO", "/repo")
        text = M.dump_mir(repo)
        prog = M.Program(text, repo)
        enc = Enc(prog)
        n, bad = validate(prog, enc, seed)
    except Exception as e:  # noqa: BLE001
        res["status"] = "inconclusive"
        res["why"] = "E2 could not encode the functions: %r" % (e,)
        return res
    res["validation_points"] = n
    res["functions_encoded"] = [
        "supply::Periodic::provided_service", "supply::Periodic::service_time", "supply::Constrained::provided_service",
        "supply::Constrained::service_time", "arrival::Sporadic::number_arrivals", "arrival::Periodic::number_arrivals",
        "arrival::divide_with_ceil", "time::{Duration,Service} arithmetic wrappers (inlined from the dump)",
    ]
    if bad:
        res["status"] = "inconclusive"
        res["why"] = "encoding disagrees with the native functions on sample points, e.g. %r" % (bad[:3],)
        return res
    P, Q, D, T, J = enc.P, enc.Q, enc.D, enc.T, enc.J
    d = z3.Int("d")
    e = z3.Int("e")
    qs = []
    if prop == "C09":
        for kind in ("Periodic", "Constrained"):
            rng = [Q >= 1, Q <= P, P <= PMAX, d >= 0, d <= XMAX]
            vs = [P, Q, d]
            if kind == "Constrained":
                rng = [Q >= 1, Q <= D, D <= P, P <= PMAX, d >= 0, d <= XMAX]
                vs = [P, Q, D, d]
            lo = kind.lower()

            def nat(fn, model, x, kind=kind, lo=lo):
                if kind == "Periodic":
                    return native(["%s_%s %d %d %d" % (lo, fn, model["Q"], model["P"], x)])[0]
                return native(["%s_%s %d %d %d %d" % (lo, fn, model["Q"], model["D"], model["P"], x)])[0]

            a, pa = enc.sbf(kind, d)
            b, _ = enc.sbf(kind, d + 1)
            z, _ = enc.sbf(kind, z3.IntVal(0))
            t, pt = enc.st(kind, d)
            at, _ = enc.sbf(kind, t)
            am, _ = enc.sbf(kind, t - 1)
            qs.append(decide("%s: provided_service cannot panic/overflow" % kind, rng, z3.Not(z3.Or(pa)), lambda m, nat=nat: nat("sbf", m, m["d"]) == "PANIC", vs))
            qs.append(decide("%s: provided_service(0) = 0" % kind, rng, z == 0, lambda m, nat=nat: nat("sbf", m, 0) != 0, vs))
            qs.append(decide("%s: sbf(d) <= sbf(d+1) <= sbf(d)+1" % kind, rng, z3.And(a <= b, b <= a + 1),
                             lambda m, nat=nat: not (nat("sbf", m, m["d"]) <= nat("sbf", m, m["d"] + 1) <= nat("sbf", m, m["d"]) + 1), vs))
            qs.append(decide("%s: service_time cannot panic/overflow" % kind, rng, z3.Not(z3.Or(pt)), lambda m, nat=nat: nat("st", m, m["d"]) == "PANIC", vs))
            qs.append(decide("%s: sbf(service_time(d)) >= d" % kind, rng, at >= d, lambda m, nat=nat: nat("sbf", m, nat("st", m, m["d"])) < m["d"], vs))
            qs.append(decide("%s: service_time(d) is the least such t" % kind, rng + [t >= 1], am < d,
                             lambda m, nat=nat: nat("st", m, m["d"]) >= 1 and nat("sbf", m, nat("st", m, m["d"]) - 1) >= m["d"], vs))
            qs.append(decide("%s: budget = period behaves like a dedicated processor" % kind, rng + [Q == P] + ([D == P] if kind == "Constrained" else []),
                             z3.And(a == d, t == d), lambda m, nat=nat: nat("sbf", m, m["d"]) != m["d"] or nat("st", m, m["d"]) != m["d"], vs))
        # Constrained with deadline = period equals Periodic
        rng = [Q >= 1, Q <= P, D == P, P <= PMAX, d >= 0, d <= XMAX]
        ap, _ = enc.sbf("Periodic", d)
        ac, _ = enc.sbf("Constrained", d)
        tp, _ = enc.st("Periodic", d)
        tc, _ = enc.st("Constrained", d)
        qs.append(decide("Constrained(Q,P,P) == Periodic(Q,P): provided_service and service_time", rng, z3.And(ap == ac, tp == tc),
                         lambda m: native(["periodic_sbf %d %d %d" % (m["Q"], m["P"], m["d"])]) != native(["constrained_sbf %d %d %d %d" % (m["Q"], m["P"], m["P"], m["d"])])
                         or native(["periodic_st %d %d %d" % (m["Q"], m["P"], m["d"])]) != native(["constrained_st %d %d %d %d" % (m["Q"], m["P"], m["P"], m["d"])]), [P, Q, d]))
        # sanity (non-vacuity): a non-trivial value is reachable
        s = z3.Solver()
        s.add(Q >= 1, Q <= D, D <= P, P <= PMAX, d >= 10, d <= XMAX)
        aa, _ = enc.sbf("Constrained", d)
        s.add(aa == 3, Q == 2, D < P)
        res["nonvacuity"] = str(s.check())
    elif prop == "C10":
        rng = [T >= 1, T <= PMAX, J >= 0, J <= XMAX, d >= 0, d <= XMAX, e >= 0, e <= XMAX]
        for kind in ("Sporadic", "Periodic"):
            vs = [T, J, d, e] if kind == "Sporadic" else [T, d, e]
            a, pa = enc.na(kind, d)
            b, _ = enc.na(kind, d + 1)
            z, _ = enc.na(kind, z3.IntVal(0))
            ae, _ = enc.na(kind, e)
            ade, _ = enc.na(kind, d + e)

            def nat(m, x, kind=kind):
                if kind == "Sporadic":
                    return native(["sporadic_na %d %d %d" % (m["T"], m["J"], x)])[0]
                return native(["periodic_na %d %d" % (m["T"], x)])[0]

            qs.append(decide("%s: number_arrivals cannot panic/overflow" % kind, rng, z3.Not(z3.Or(pa)), lambda m, nat=nat: nat(m, m["d"]) == "PANIC", vs))
            qs.append(decide("%s: number_arrivals(0) = 0" % kind, rng, z == 0, lambda m, nat=nat: nat(m, 0) != 0, vs))
            qs.append(decide("%s: number_arrivals is non-decreasing" % kind, rng, a <= b, lambda m, nat=nat: nat(m, m["d"]) > nat(m, m["d"] + 1), vs))
            qs.append(decide("%s: number_arrivals is sub-additive" % kind, rng, ade <= a + ae, lambda m, nat=nat: nat(m, m["d"] + m["e"]) > nat(m, m["d"]) + nat(m, m["e"]), vs))
        asp, _ = enc.na("Sporadic", d)
        ape, _ = enc.na("Periodic", d)
        qs.append(decide("Sporadic with zero jitter == Periodic", rng + [J == 0], asp == ape,
                         lambda m: native(["sporadic_na %d 0 %d" % (m["T"], m["d"])]) != native(["periodic_na %d %d" % (m["T"], m["d"])]), [T, d]))
        s = z3.Solver()
        s.add(*rng)
        s.add(asp == 7, J > T, T > 1)
        res["nonvacuity"] = str(s.check())
    res["queries"] = qs
    res["bounds"] = "periods/budgets/deadlines in [1, %d], jitter and interval lengths/demands in [0, %d]; mathematical integers with explicit no-overflow obligations" % (PMAX, XMAX)
    if res.get("nonvacuity") != "sat":
        res["status"] = "inconclusive"
        res["why"] = "non-vacuity probe is not satisfiable"
    for q in qs:
        if q["verdict"] == "sat":
            if q.get("native_confirms", False):
                res["status"] = "violation"
            elif res["status"] != "violation":
                res["status"] = "inconclusive"
                res["why"] = "solver model of '%s' does not reproduce natively" % q["query"]
        elif q["verdict"] in ("unknown", "disagreement") and res["status"] == "held":
            res["status"] = "inconclusive"
            res["why"] = "query '%s' undecided (%s)" % (q["query"], q["verdict"])
    res["wall_s"] = round(time.time() - t0, 1)
    return res


if __name__ == "__main__":
    import json

    r = run_e2(sys.argv[1] if len(sys.argv) > 1 else "C09")
    print(json.dumps(r, indent=1))
