#!/usr/bin/env python3
"""Development-time helper: assemble /verif/seeded/<id>/ from a sub-agent's SEED directory
and the result file written by mutrun.sh.   usage: collect_seeded.py <id> <property> <needs-text> [check args]"""
import json, os, re, shutil, sys

mid, prop, needs = sys.argv[1], sys.argv[2], sys.argv[3]
args = " ".join(sys.argv[4:])
p, i = mid.rsplit("-", 1)
seed = "/tmp/wt-%s/SEED" % p
dst = "/verif/seeded/%s" % mid
os.makedirs(dst, exist_ok=True)
shutil.copy(os.path.join(seed, "patch%s.diff" % i), os.path.join(dst, "patch.diff"))
if os.path.exists(os.path.join(seed, "demo%s.rs" % i)):
    shutil.copy(os.path.join(seed, "demo%s.rs" % i), os.path.join(dst, "demo.rs"))
if os.path.exists(os.path.join(seed, "notes%s.md" % i)):
    shutil.copy(os.path.join(seed, "notes%s.md" % i), os.path.join(dst, "notes.md"))
res = open("/tmp/mut-%s.result" % mid).read()
kv = dict(l.split("=", 1) for l in res.split("\n") if re.match(r"^\w+=", l))
caught = sorted(set(re.findall(r"replays/C\d+-(\w+)\.json", res)))
rc = kv.get("check_rc", "?")
meta = {
    "id": mid,
    "breaks_property": p,
    "checked_with": prop,
    "needs_to_manifest": needs,
    "what_i_ran": [
        "git worktree add <scratch> HEAD; cargo test --offline --test demo (unmodified): %s" % kv.get("demo_on_base"),
        "git apply patch.diff; cargo test --offline --test demo: %s" % kv.get("demo_on_mutant"),
        "cargo test --offline (the repository's own 80 tests + 3 doctests, with the change): %s" % kv.get("suite_on_mutant"),
        "mutrun.sh: copy of /verif against the changed scratch worktree: ./verif.py check %s %s -> exit %s" % (prop, args, rc),
    ],
    "check_exit_code": int(rc) if rc.isdigit() else rc,
    "detected": rc == "1",
    "violating_harnesses": caught,
    "e2_detected": "E2" in res and "refuted" in res,
}
json.dump(meta, open(os.path.join(dst, "meta.json"), "w"), indent=1)
print(mid, "detected" if meta["detected"] else "NOT detected", caught)
